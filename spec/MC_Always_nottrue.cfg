SPECIFICATION Spec
CONSTANTS
  Variant = "not-true"
INVARIANT Sound
INVARIANT VariantOff
CHECK_DEADLOCK FALSE
