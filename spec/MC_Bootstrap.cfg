SPECIFICATION Spec
CONSTANTS
  CheckedIn = "peg.peg.go"
  Stages = 6
  Gen <- MCGen
INVARIANT Converges
CHECK_DEADLOCK FALSE
