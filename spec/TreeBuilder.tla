------------------------------ MODULE TreeBuilder ------------------------------
(***************************************************************************)
(* The tree builder of the front end (tree/peg.go, the exported Add*       *)
(* methods called from the actions of peg.peg): one list used as a stack   *)
(* at its front (expressions under construction, the open rule, the open   *)
(* parser declaration) and as a queue at its back (finished header items   *)
(* and rules).  One action per Add* method with its pops and pushes.       *)
(* Replay(calls) folds a recorded call sequence; BuildResult gives the     *)
(* grammar it denotes.  Checked on every call sequence the real front end  *)
(* makes for the rendered texts of the syntax family (JudgeSyntax):        *)
(*   - no method pops from an empty list or pops a finished item           *)
(*     (stack discipline),                                                 *)
(*   - BuildResult(calls) is the tree the front end actually holds, and    *)
(*     the documented meaning of the text (PegSyntax!Desugar).             *)
(***************************************************************************)
EXTENDS PegSyntax

\* list elements: expressions (records with op) and bookkeeping nodes
RuleN(name) == [op |-> "rule", name |-> name]
DoneRule(name, body) == [op |-> "rule!", name |-> name, body |-> body]
IsExpr(n) == n.op \notin {"rule", "rule!", "peg", "peg!", "package", "space", "comment", "import", "importalias"}

\* state of the replay: the list (head = front) and a flag that records a violated discipline
Empty == [l |-> <<>>, bad |-> ""]
PushFront(s, n) == [s EXCEPT !.l = <<n>> \o s.l]
PushBack(s, n) == [s EXCEPT !.l = Append(s.l, n)]
CanPop(s, k) == Len(s.l) >= k
Top(s, k) == s.l[k]
Drop(s, k) == [s EXCEPT !.l = SubSeq(s.l, k + 1, Len(s.l))]
Fail(s, why) == IF s.bad = "" THEN [s EXCEPT !.bad = why] ELSE s

\* addList (tree/peg.go): a = pop, b = pop; if b is already a list of that type, a is appended to it
AddList(s, op) ==
  IF ~CanPop(s, 2) \/ ~IsExpr(Top(s, 1)) \/ ~IsExpr(Top(s, 2)) THEN Fail(s, "addList(" \o op \o ") without two expressions on the stack")
  ELSE LET a == Top(s, 1) b == Top(s, 2)
           l == IF b.op = op THEN [b EXCEPT !.es = Append(b.es, a)] ELSE [op |-> op, es |-> <<b, a>>]
       IN PushFront(Drop(s, 2), l)
AddFix(s, op) ==
  IF ~CanPop(s, 1) \/ ~IsExpr(Top(s, 1)) THEN Fail(s, "addFix(" \o op \o ") without an expression on the stack")
  ELSE PushFront(Drop(s, 1), [op |-> op, a |-> Top(s, 1)])
\* a range is built as a two-element list of characters and read back as rng(lo, hi)
AddRangeB(s) ==
  IF ~CanPop(s, 2) \/ Top(s, 1).op # "chr" \/ Top(s, 2).op # "chr" THEN Fail(s, "AddRange without two characters on the stack")
  ELSE PushFront(Drop(s, 2), Rng(Top(s, 2).c, Top(s, 1).c))

RECURSIVE FoldDigits(_, _, _)
FoldDigits(ds, base, acc) == IF ds = <<>> THEN acc ELSE FoldDigits(Tail(ds), base, acc * base + Head(ds))

\* one call: c = [m |-> method name, t |-> text argument, r |-> code point(s) of the text, d |-> digit values]
Call(s, c) ==
  CASE c.m = "AddRule" -> PushFront(s, RuleN(c.t))
    [] c.m = "AddExpression" ->
         IF ~CanPop(s, 2) \/ ~IsExpr(Top(s, 1)) \/ Top(s, 2).op # "rule" THEN Fail(s, "AddExpression without expression and open rule")
         ELSE PushBack(Drop(s, 2), DoneRule(Top(s, 2).name, Top(s, 1)))
    [] c.m = "AddName" -> PushFront(s, Ref(c.t))
    [] c.m = "AddDot" -> PushFront(s, Dot)
    [] c.m = "AddCharacter" -> PushFront(s, Chr(c.r[1]))
    [] c.m = "AddDoubleCharacter" ->      \* lower, upper, AddAlternate
         AddList(PushFront(PushFront(s, Chr(Lower(c.r[1]))), Chr(Upper(c.r[1]))), "alt")
    [] c.m = "AddHexaCharacter" -> PushFront(s, Chr(FoldDigits(c.d, 16, 0)))
    [] c.m = "AddOctalCharacter" -> PushFront(s, Chr(FoldDigits(c.d, 8, 0)))
    [] c.m = "AddPredicate" -> PushFront(s, [op |-> "rawpred", t |-> c.t])
    [] c.m = "AddStateChange" -> PushFront(s, [op |-> "rawchg", t |-> c.t])
    [] c.m = "AddNil" -> PushFront(s, Nil)
    [] c.m = "AddAction" -> PushFront(s, [op |-> "rawact", t |-> c.t])
    [] c.m = "AddPackage" -> PushBack(s, [op |-> "package", t |-> c.t])
    [] c.m = "AddSpace" -> PushBack(s, [op |-> "space", t |-> c.t])
    [] c.m = "AddComment" -> PushBack(s, [op |-> "comment", t |-> c.t])
    [] c.m = "AddImport" -> PushBack(s, [op |-> "import", t |-> c.t])
    [] c.m = "AddImportAlias" -> PushBack(s, [op |-> "importalias", t |-> c.t])
    [] c.m = "AddPeg" -> PushFront(s, [op |-> "peg", t |-> c.t])
    [] c.m = "AddState" -> IF ~CanPop(s, 1) \/ Top(s, 1).op # "peg" THEN Fail(s, "AddState without open parser declaration")
                           ELSE PushBack(Drop(s, 1), [op |-> "peg!", t |-> Top(s, 1).t])
    [] c.m = "AddAlternate" -> AddList(s, "alt")
    [] c.m = "AddSequence" -> AddList(s, "seq")
    [] c.m = "AddRange" -> AddRangeB(s)
    [] c.m = "AddDoubleRange" ->
         IF ~CanPop(s, 2) \/ Top(s, 1).op # "chr" \/ Top(s, 2).op # "chr" THEN Fail(s, "AddDoubleRange without two characters on the stack")
         ELSE LET a == Top(s, 1).c b == Top(s, 2).c IN
              AddList(PushFront(PushFront(Drop(s, 2), Rng(Lower(b), Lower(a))), Rng(Upper(b), Upper(a))), "alt")
    [] c.m = "AddPeekFor" -> AddFix(s, "and")
    [] c.m = "AddPeekNot" -> AddFix(s, "not")
    [] c.m = "AddQuery" -> AddFix(s, "opt")
    [] c.m = "AddStar" -> AddFix(s, "star")
    [] c.m = "AddPlus" -> AddFix(s, "plus")
    [] c.m = "AddPush" -> AddFix(s, "cap")
    [] OTHER -> Fail(s, "unknown builder method " \o c.m)

RECURSIVE Replay(_, _, _)
Replay(calls, k, s) == IF k > Len(calls) THEN s ELSE Replay(calls, k + 1, Call(s, calls[k]))
\* the grammar a call sequence denotes: the finished rules in order
BuildResult(s) == LET rs == SelectSeq(s.l, LAMBDA n : n.op = "rule!") IN [i \in 1..Len(rs) |-> [name |-> rs[i].name, body |-> rs[i].body]]
\* at the end nothing is left under construction
Closed(s) == \A k \in 1..Len(s.l) : ~IsExpr(s.l[k]) /\ s.l[k].op \notin {"rule", "peg"}
=============================================================================
