SPECIFICATION Spec
CONSTANTS
  Variant = "code"
INVARIANT NoneAccepted
CHECK_DEADLOCK FALSE
