------------------------------ MODULE MCAlways ------------------------------
(***************************************************************************)
(* L0 for the always-succeeds test (C01/C02/C07): over a file of TLC-       *)
(* generated well-formed scenarios, every rule the transcribed test        *)
(* accepts succeeds from every offset of every scenario input (PegSem).    *)
(* Variants "not-true", "pred-true", "seq-any" must be refuted.            *)
(***************************************************************************)
EXTENDS AlwaysSucceeds, Json, IOUtils
CONSTANT Variant

Scen == ndJsonDeserialize(IOEnv.MC_SCEN)
MAXIN == atoi(IOEnv.MC_MAXIN)
Bodies == [s \in 1..Len(Scen) |-> BodyMap(Core(Scen[s].grammar))]

VARIABLES sid, iid
MinI(a, b) == IF a < b THEN a ELSE b
Init == sid \in 1..Len(Scen) /\ iid \in 1..MinI(Len(Scen[sid].inputs), MAXIN)
Next == UNCHANGED <<sid, iid>>
Spec == Init /\ [][Next]_<<sid, iid>>
W == Scen[sid].inputs[iid].r
Sound == IF Variant = "code" THEN CASSoundAt(Bodies[sid], W) ELSE CASxSoundAt(Bodies[sid], W, Variant)
\* the variants agree with the transcription when switched off
VariantOff == \A r \in DOMAIN Bodies[sid] : CASxRule(Bodies[sid], r, "code") = CASRule(Bodies[sid], r)
Lemmas == WFB(Bodies[sid]) => ShortcutIdle(Bodies[sid]) /\ AcceptedNullable(Bodies[sid])
\* non-vacuity witnesses (each expected to be violated): no rule is accepted at all; no rule is
\* accepted through the path shortcut (a recursive rule that always succeeds)
NoneAccepted == \A r \in DOMAIN Bodies[sid] : ~CASRule(Bodies[sid], r)
=============================================================================
