SPECIFICATION Spec
CONSTANTS
  Rules <- MC_Rules
  Calls <- MC_Calls
  Left <- MC_Left
  Switch = TRUE
INVARIANTS
  WalkersReadOriginalTree
  RewriteAfterWalkers
  Confluent
PROPERTY Terminates
CHECK_DEADLOCK FALSE
