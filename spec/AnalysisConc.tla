---------------------------- MODULE AnalysisConc ----------------------------
(***************************************************************************)
(* The concurrent part of Tree.Compile (tree/peg.go): after linking, two   *)
(* goroutines walk the rule tree - "count" (countRules: reachability and   *)
(* reference counts, then usage) and "rec" (checkRecursion: left-recursion *)
(* warnings through warn) - the main goroutine waits for both, then        *)
(* rewrites the tree (-switch) and emits.  The rule graph is a constant:   *)
(* Calls[r] are the rules referenced by r in order, Left[r] those in left  *)
(* position.                                                               *)
(* Checked for every interleaving: the walkers only read the tree and      *)
(* write disjoint state; the tree is rewritten only after both finished;   *)
(* the results (rulesCount, reached, warnings) do not depend on the        *)
(* schedule (C09).                                                         *)
(***************************************************************************)
EXTENDS Integers, Sequences, FiniteSets, TLC

CONSTANTS Rules,      \* sequence of rule names, first = start rule
          Calls,      \* [rule -> sequence of rule names]
          Left,       \* [rule -> sequence of rule names]
          Switch      \* BOOLEAN: main rewrites the tree after the wait

Names == {Rules[i] : i \in 1..Len(Rules)}

VARIABLES pcMain,                 \* "spawn" | "wait" | "opt" | "emit" | "done"
          cStack, cReached, cCount, cDone,    \* count goroutine
          rTodo, rStack, rMarked, rWarn, rDone,  \* rec goroutine (rStack: frames <<rule, next index>>)
          treeGen,                \* number of rewrites applied to the tree
          reads                   \* set of <<process, treeGen at the time of the read>> (observation)
vars == <<pcMain, cStack, cReached, cCount, cDone, rTodo, rStack, rMarked, rWarn, rDone, treeGen, reads>>

Init == /\ pcMain = "spawn"
        /\ cStack = <<>> /\ cReached = {} /\ cCount = [n \in Names |-> 0] /\ cDone = FALSE
        /\ rTodo = <<>> /\ rStack = <<>> /\ rMarked = {} /\ rWarn = <<>> /\ rDone = FALSE
        /\ treeGen = 0 /\ reads = {}

Spawn == /\ pcMain = "spawn" /\ pcMain' = "wait"
         /\ cStack' = <<Rules[1]>> /\ rTodo' = Rules
         /\ UNCHANGED <<cReached, cCount, cDone, rStack, rMarked, rWarn, rDone, treeGen, reads>>

\* countRules: visit a rule (count it; descend into its references only the first time)
CountStep ==
  /\ pcMain # "spawn" /\ ~cDone /\ cStack # <<>>
  /\ LET r == Head(cStack) IN
     /\ cCount' = [cCount EXCEPT ![r] = @ + 1]
     /\ IF r \in cReached THEN cStack' = Tail(cStack) /\ UNCHANGED cReached
        ELSE cReached' = cReached \cup {r} /\ cStack' = Calls[r] \o Tail(cStack)
  /\ reads' = reads \cup {<<"count", treeGen>>}
  /\ UNCHANGED <<pcMain, cDone, rTodo, rStack, rMarked, rWarn, rDone, treeGen>>
CountFinish == /\ pcMain # "spawn" /\ ~cDone /\ cStack = <<>> /\ cDone' = TRUE
               /\ UNCHANGED <<pcMain, cStack, cReached, cCount, rTodo, rStack, rMarked, rWarn, rDone, treeGen, reads>>

\* checkRecursion for each rule in turn: depth-first over left positions, warning on re-entry
RecStart == /\ pcMain # "spawn" /\ ~rDone /\ rStack = <<>> /\ rTodo # <<>>
            /\ rStack' = <<<<Head(rTodo), 1>>>> /\ rMarked' = {Head(rTodo)} /\ rTodo' = Tail(rTodo)
            /\ reads' = reads \cup {<<"rec", treeGen>>}
            /\ UNCHANGED <<pcMain, cStack, cReached, cCount, cDone, rWarn, rDone, treeGen>>
RecStep ==
  /\ pcMain # "spawn" /\ ~rDone /\ rStack # <<>>
  /\ LET top == rStack[Len(rStack)] r == top[1] i == top[2] IN
     IF i > Len(Left[r])
     THEN /\ rStack' = SubSeq(rStack, 1, Len(rStack) - 1) /\ rMarked' = rMarked \ {r} /\ UNCHANGED rWarn
     ELSE LET c == Left[r][i] IN
          IF c \in rMarked
          THEN /\ rWarn' = Append(rWarn, c) /\ rStack' = [rStack EXCEPT ![Len(rStack)] = <<r, i + 1>>] /\ UNCHANGED rMarked
          ELSE /\ rStack' = Append([rStack EXCEPT ![Len(rStack)] = <<r, i + 1>>], <<c, 1>>) /\ rMarked' = rMarked \cup {c} /\ UNCHANGED rWarn
  /\ reads' = reads \cup {<<"rec", treeGen>>}
  /\ UNCHANGED <<pcMain, cStack, cReached, cCount, cDone, rTodo, rDone, treeGen>>
RecFinish == /\ pcMain # "spawn" /\ ~rDone /\ rStack = <<>> /\ rTodo = <<>> /\ rDone' = TRUE
             /\ UNCHANGED <<pcMain, cStack, cReached, cCount, cDone, rTodo, rStack, rMarked, rWarn, treeGen, reads>>

\* main: wg.Wait(), then the -switch rewrite, then emission
Wait == /\ pcMain = "wait" /\ cDone /\ rDone /\ pcMain' = (IF Switch THEN "opt" ELSE "emit")
        /\ UNCHANGED <<cStack, cReached, cCount, cDone, rTodo, rStack, rMarked, rWarn, rDone, treeGen, reads>>
Opt == /\ pcMain = "opt" /\ treeGen' = treeGen + 1 /\ pcMain' = "emit"
       /\ UNCHANGED <<cStack, cReached, cCount, cDone, rTodo, rStack, rMarked, rWarn, rDone, reads>>
Emit == /\ pcMain = "emit" /\ pcMain' = "done"
        /\ UNCHANGED <<cStack, cReached, cCount, cDone, rTodo, rStack, rMarked, rWarn, rDone, treeGen, reads>>

Next == Spawn \/ CountStep \/ CountFinish \/ RecStart \/ RecStep \/ RecFinish \/ Wait \/ Opt \/ Emit
Spec == Init /\ [][Next]_vars /\ WF_vars(Next)

\* the walkers never see a rewritten tree (they are done before the rewrite starts)
WalkersReadOriginalTree == \A x \in reads : x[2] = 0
RewriteAfterWalkers == pcMain \in {"opt", "emit", "done"} => cDone /\ rDone

\* sequential reference: what one goroutine running count then rec would compute
RECURSIVE SeqCount(_, _, _)
SeqCount(stack, reached, count) ==
  IF stack = <<>> THEN [reached |-> reached, count |-> count]
  ELSE LET r == Head(stack) c2 == [count EXCEPT ![r] = @ + 1] IN
       IF r \in reached THEN SeqCount(Tail(stack), reached, c2)
       ELSE SeqCount(Calls[r] \o Tail(stack), reached \cup {r}, c2)
RECURSIVE SeqRecRule(_, _, _)
SeqRecRule(stack, marked, warn) ==
  IF stack = <<>> THEN warn
  ELSE LET top == stack[Len(stack)] r == top[1] i == top[2] IN
       IF i > Len(Left[r]) THEN SeqRecRule(SubSeq(stack, 1, Len(stack) - 1), marked \ {r}, warn)
       ELSE LET c == Left[r][i] st2 == [stack EXCEPT ![Len(stack)] = <<r, i + 1>>] IN
            IF c \in marked THEN SeqRecRule(st2, marked, Append(warn, c))
            ELSE SeqRecRule(Append(st2, <<c, 1>>), marked \cup {c}, warn)
RECURSIVE SeqRec(_, _)
SeqRec(todo, warn) == IF todo = <<>> THEN warn ELSE SeqRec(Tail(todo), SeqRecRule(<<<<Head(todo), 1>>>>, {Head(todo)}, warn))
RefCount == SeqCount(<<Rules[1]>>, {}, [n \in Names |-> 0])
RefWarn == SeqRec(Rules, <<>>)
\* results are a function of the grammar, whatever the schedule
Confluent == pcMain = "done" => cCount = RefCount.count /\ cReached = RefCount.reached /\ rWarn = RefWarn
Terminates == <>(pcMain = "done")
=============================================================================
