------------------------------- MODULE SchedIO -------------------------------
(***************************************************************************)
(* L3 for C09: schedules of the two analysis goroutines of Compile are     *)
(* enumerated here and replayed on the real goroutines through the gate    *)
(* hook; the recorded event logs are judged here.                          *)
(*  SCHED_MODE = "gen":   input [id, nc, nr] (rule visits of the counting  *)
(*      and of the recursion walker in a free run); output per id a list   *)
(*      of schedules over {"c","r"}: every walker step of AnalysisConc is  *)
(*      independent of the other walker, so every merge of nc c's and nr   *)
(*      r's is a behaviour of AnalysisConc!Spec; the two sequential        *)
(*      orders, the strict alternation and seeded random merges are taken. *)
(*  SCHED_MODE = "judge": per grammar, all replayed runs must                *)
(*      - follow their schedule,                                           *)
(*      - show the same per-goroutine event sequence (each walker's visits  *)
(*        and the warnings are independent of the interleaving),            *)
(*      - produce the same bytes and warnings (AnalysisConc!Confluent),     *)
(*      - let main pass the wait only after both walkers ended and start   *)
(*        the rewrite only after the wait (AnalysisConc!RewriteAfterWalkers).*)
(***************************************************************************)
EXTENDS Integers, Sequences, FiniteSets, TLC, Json, IOUtils

MODE == IOEnv.SCHED_MODE
Input == ndJsonDeserialize(IOEnv.SCHED_IN)
OUT  == IOEnv.SCHED_OUT
SEED == atoi(IOEnv.SCHED_SEED)
NRANDOM == atoi(IOEnv.SCHED_N)

M == 46309
Sq(x) == (x * x + 17 * x + 5) % M
H(s, i) == Sq((Sq(((s % M) * 31 + (i % 1499) * 1009 + 12347) % M) + (i % 97)) % M)

RECURSIVE RandomMerge(_, _, _)
RandomMerge(s, c, r) ==
  IF c = 0 THEN [j \in 1..r |-> "r"] ELSE IF r = 0 THEN [j \in 1..c |-> "c"]
  ELSE IF (H(s, c + r) \div 7) % (c + r) < c THEN <<"c">> \o RandomMerge(H(s, 1), c - 1, r) ELSE <<"r">> \o RandomMerge(H(s, 2), c, r - 1)
RECURSIVE Alternate(_, _, _)
Alternate(c, r, turn) ==
  IF c = 0 THEN [j \in 1..r |-> "r"] ELSE IF r = 0 THEN [j \in 1..c |-> "c"]
  ELSE IF turn = "c" THEN <<"c">> \o Alternate(c - 1, r, "r") ELSE <<"r">> \o Alternate(c, r - 1, "c")
Scheds(x) ==
  << [j \in 1..x.nc |-> "c"] \o [j \in 1..x.nr |-> "r"],
     [j \in 1..x.nr |-> "r"] \o [j \in 1..x.nc |-> "c"],
     Alternate(x.nc, x.nr, "c"), Alternate(x.nc, x.nr, "r") >> \o
  [k \in 1..NRANDOM |-> RandomMerge(H(H(SEED, x.id), k), x.nc, x.nr)]
GenAll == [k \in 1..Len(Input) |-> [id |-> Input[k].id, scheds |-> Scheds(Input[k])]]

(* ---------- judgement -------------------------------------------------------------------- *)
Proj(evs, passes) == SelectSeq(evs, LAMBDA e : e[1] \in passes)
Letters(evs) == LET w == SelectSeq(evs, LAMBDA e : e[2] = "rule" /\ e[1] \in {"count", "rec"}) IN
                [k \in 1..Len(w) |-> IF w[k][1] = "count" THEN "c" ELSE "r"]
IsPrefix(a, b) == Len(a) <= Len(b) /\ SubSeq(b, 1, Len(a)) = a
FirstIdx(evs, pass, ev) == LET S == {k \in 1..Len(evs) : evs[k][1] = pass /\ evs[k][2] = ev} IN IF S = {} THEN 0 ELSE CHOOSE k \in S : \A j \in S : k <= j
LastWalker(evs) == LET S == {k \in 1..Len(evs) : evs[k][1] \in {"count", "rec"}} IN IF S = {} THEN 0 ELSE CHOOSE k \in S : \A j \in S : k >= j
If(c, x) == IF c THEN <<x>> ELSE <<>>
Mis(x, k, field, want, got) == [kind |-> "mis", prop |-> "C09", id |-> x.id, run |-> k, field |-> field, want |-> want, got |-> got]
RECURSIVE JudgeRuns(_, _)
JudgeRuns(x, k) ==
  IF k > Len(x.runs) THEN <<>>
  ELSE LET r == x.runs[k] base == x.runs[1]
           waited == FirstIdx(r.events, "main", "waited") rewrite == FirstIdx(r.events, "main", "rewrite") IN
       If(r.panic # "" /\ r.panic # "syntax", Mis(x, k, "generator-panic", "", r.panic)) \o
       If(r.stalled, [kind |-> "infra", id |-> x.id, run |-> k, why |-> "a walker waited for a turn that did not come"]) \o
       (IF r.panic # "" \/ r.stalled THEN <<>> ELSE
        If(~IsPrefix(Letters(r.events), r.sched) /\ ~IsPrefix(r.sched, Letters(r.events)), Mis(x, k, "schedule-not-followed", r.sched, Letters(r.events))) \o
        If(Proj(r.events, {"count"}) # Proj(base.events, {"count"}), Mis(x, k, "count-walker-depends-on-schedule", Proj(base.events, {"count"}), Proj(r.events, {"count"}))) \o
        If(Proj(r.events, {"rec", ""}) # Proj(base.events, {"rec", ""}), Mis(x, k, "recursion-walker-depends-on-schedule", Proj(base.events, {"rec", ""}), Proj(r.events, {"rec", ""}))) \o
        If(r.out # base.out \/ r.warn # base.warn, Mis(x, k, "output-depends-on-schedule", <<base.out, base.warn>>, <<r.out, r.warn>>)) \o
        If(waited = 0 \/ waited < LastWalker(r.events), Mis(x, k, "wait-passed-before-walkers-ended", "waited after every walker event", r.events)) \o
        If(rewrite # 0 /\ rewrite < waited, Mis(x, k, "rewrite-before-wait", "rewrite after waited", r.events))) \o
       JudgeRuns(x, k + 1)
RECURSIVE JudgeAll(_)
JudgeAll(k) == IF k > Len(Input) THEN <<>>
               ELSE JudgeRuns(Input[k], 1) \o <<[kind |-> "stat", id |-> Input[k].id, runs |-> Len(Input[k].runs),
                                              steps |-> Input[k].runs[1].ncount + Input[k].runs[1].nrec, warned |-> Input[k].runs[1].warn # ""]>> \o JudgeAll(k + 1)

VARIABLES xdone
Init == xdone = FALSE
Next == ~xdone /\ xdone' = TRUE /\ ndJsonSerialize(OUT, IF MODE = "gen" THEN GenAll ELSE JudgeAll(1))
Spec == Init /\ [][Next]_xdone
=============================================================================
