SPECIFICATION Spec
CONSTANTS
  RewriteNullable = FALSE
  SkipThroughAll = FALSE
  FirstPasses = 1
INVARIANT SoundCode
CHECK_DEADLOCK FALSE
