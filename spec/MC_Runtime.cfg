SPECIFICATION Spec
CONSTANTS
  Inst = {1, 2}
  Inputs = {"u", "v"}
  MaxParses = 2
INVARIANTS
  FreshEquivalence
  ResetClean
PROPERTY Confinement
CHECK_DEADLOCK FALSE
