SPECIFICATION Spec
INVARIANT DesignMeetsReq
CHECK_DEADLOCK FALSE
