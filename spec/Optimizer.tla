------------------------------ MODULE Optimizer ------------------------------
(***************************************************************************)
(* The -switch optimisation (tree/peg.go, optimizeAlternates and the       *)
(* TypeUnorderedAlternate case of compile) as a transformation on          *)
(* desugared grammars, and the meaning of what it emits.                   *)
(*                                                                         *)
(*  First(e): (consumes, first set) as the optimiser computes them         *)
(*  Rewrite:  the rewritten expression: an ordered choice whose            *)
(*            alternatives all consume and are mostly disjoint becomes     *)
(*              alt(ordered..., ualt(cases, default))                      *)
(*  EvalO:    semantics of the rewritten grammar: a ualt dispatches on the *)
(*            next character, runs exactly one case (no fall-through), and *)
(*            the mandatory first terminal of a case skips its own test    *)
(*            (ParentDetect), unless it is a character test of a           *)
(*            multi-label case (ParentMultipleKey).                        *)
(* Design-level property (MC_Optimizer.cfg):                               *)
(*            for all generated grammars and inputs,                       *)
(*            EvalO(Rewrite(G), w) = Eval(G, w)   (verdict, end, tokens).      *)
(* The rules transcribed here are those of the repaired tree: a choice     *)
(* with an alternative that may consume nothing is left alone, the skip    *)
(* flag reaches only the first element of sequences, captures and inlined  *)
(* rules, labels include the maximum code point.  Variants of the pinned   *)
(* tree can be selected with the constants below to see TLC refute them.   *)
(***************************************************************************)
EXTENDS PegSem

CONSTANTS RewriteNullable,   \* FALSE on the repaired tree; TRUE: pinned behaviour (consumes taken from the last alternative)
          FirstPasses,       \* 0 on the repaired tree (analysing passes until stable); 1: the pinned tree's single analysing pass
          SkipThroughAll     \* FALSE on the repaired tree; TRUE: pinned propagation of the skip flag through & ! ? * and into nested choices

\* characters are compared as code points; REST stands for every character not named in the grammar
REST == -2
RECURSIVE CharsOf(_), CharsOfL(_)
CharsOfL(es) == IF es = <<>> THEN {} ELSE CharsOf(Head(es)) \cup CharsOfL(Tail(es))
CharsOf(e) ==
  CASE e.op = "chr" -> {e.c}
    [] e.op = "rng" -> IF e.lo <= e.hi /\ e.hi - e.lo < 64 THEN e.lo..e.hi ELSE {e.lo, e.hi}
    [] e.op \in UnaryOps -> CharsOf(e.a)
    [] e.op \in ListOps -> CharsOfL(e.es)
    [] OTHER -> {}
\* A: the characters that occur in the inputs under consideration (so that REST never occurs in an input)
Sigma(B, A) == (UNION {CharsOf(B[r]) : r \in DOMAIN B}) \cup A \cup {REST}

(* ---------- first sets as the optimiser computes them ------------------------------------ *)
\* visiting: rules in progress (a rule met again yields the empty set and "does not consume", as in the first pass)
RECURSIVE First(_, _, _, _)
FirstSeq(B, S, es, visiting) ==
  LET RECURSIVE F(_, _)
      F(k, acc) == IF k > Len(es) THEN [consumes |-> FALSE, s |-> acc]
                   ELSE LET r == First(B, S, es[k], visiting) IN
                        IF r.consumes THEN [consumes |-> TRUE, s |-> acc \cup r.s] ELSE F(k + 1, acc \cup r.s)
  IN F(1, {})
FirstAlt(B, S, es, visiting) ==
  LET rs == [k \in 1..Len(es) |-> First(B, S, es[k], visiting)] IN
  [consumes |-> IF RewriteNullable THEN rs[Len(es)].consumes ELSE \A k \in 1..Len(es) : rs[k].consumes,
   s |-> UNION {rs[k].s : k \in 1..Len(es)}]
First(B, S, e, visiting) ==
  CASE e.op = "chr" -> [consumes |-> TRUE, s |-> {e.c}]
    [] e.op = "rng" -> [consumes |-> TRUE, s |-> {c \in S : c # REST /\ c >= e.lo /\ c <= e.hi}]
    [] e.op = "dot" -> [consumes |-> TRUE, s |-> S]
    [] e.op = "ref" -> IF e.r \in visiting \/ e.r \notin DOMAIN B THEN [consumes |-> FALSE, s |-> {}]
                       ELSE First(B, S, B[e.r], visiting \cup {e.r})
    [] e.op = "seq" -> FirstSeq(B, S, e.es, visiting)
    [] e.op = "alt" -> FirstAlt(B, S, e.es, visiting)
    [] e.op \in {"opt", "star"} -> [consumes |-> FALSE, s |-> First(B, S, e.a, visiting).s]
    [] e.op \in {"plus", "cap"} -> First(B, S, e.a, visiting)
    [] OTHER -> [consumes |-> FALSE, s |-> {}]          \* & ! actions predicates nil

(* ---------- the rewrite ------------------------------------------------------------------- *)
UAlt(cases, dflt) == [op |-> "ualt", cases |-> cases, dflt |-> dflt]       \* cases: <<[labels, e]>>

RECURSIVE Rewrite(_, _, _)
OptAlt(B, S, es) ==
  LET n == Len(es)
      alts == [k \in 1..n |-> Rewrite(B, S, es[k])]
      fs == [k \in 1..n |-> First(B, S, es[k], {})]
      allConsume == IF RewriteNullable THEN fs[n].consumes ELSE \A k \in 1..n : fs[k].consumes
      \* an alternative that cannot start with any character (an inverted range) is never selected by a switch: it stays ordered
      inter == [k \in 1..n |-> fs[k].s = {} \/ \E j \in (k + 1)..n : fs[k].s \cap fs[j].s # {}]
      nInter == Cardinality({k \in 1..n : inter[k]})
  IN IF ~allConsume \/ 2 + nInter >= n THEN AltE(alts)
     ELSE LET ordered == SelectSeq([k \in 1..n |-> [i |-> k]], LAMBDA x : inter[x.i])
              \* unordered: larger sets go to the back (the last one becomes the default), others to the front
              RECURSIVE Place(_, _, _)
              Place(k, acc, maxv) ==
                IF k > n THEN acc
                ELSE IF inter[k] THEN Place(k + 1, acc, maxv)
                ELSE LET len == Cardinality(fs[k].s) item == [labels |-> fs[k].s, e |-> alts[k]] IN
                     IF len > maxv THEN Place(k + 1, Append(acc, item), len) ELSE Place(k + 1, <<item>> \o acc, maxv)
              un == Place(1, <<>>, 0)
              u == UAlt(SubSeq(un, 1, Len(un) - 1), un[Len(un)].e)
          IN IF ordered = <<>> THEN u ELSE AltE([k \in 1..Len(ordered) |-> alts[ordered[k].i]] \o <<u>>)
Rewrite(B, S, e) ==
  CASE e.op = "alt" -> OptAlt(B, S, e.es)
    [] e.op = "seq" -> [e EXCEPT !.es = [k \in 1..Len(e.es) |-> Rewrite(B, S, e.es[k])]]
    [] e.op \in UnaryOps -> [e EXCEPT !.a = Rewrite(B, S, e.a)]
    [] OTHER -> e
OptGrammar(B, A) == [r \in DOMAIN B |-> Rewrite(B, Sigma(B, A), B[r])]

(* ---------- the analysis as the code runs it: passes over a rule cache --------------------- *)
\* optimizeAlternates walks the tree from the first rule.  A rule is entered once per pass ("reached"); a rule met
\* again - also while its own visit is still in progress - answers with its cache entry, i.e. with what the
\* PREVIOUS pass computed for it (initially: consumes nothing, empty set).  Passes that only analyse come first,
\* then one pass that also rewrites, taking its decisions from the values at hand when a choice is visited.
\*   FirstPasses = 1  the pinned tree: one analysing pass.  A rule first visited while the rule it starts with is
\*                    in progress gets a wrong entry, and the rewriting pass uses it when that rule is in turn in progress.
\*   FirstPasses = 0  the repaired tree: analysing passes are repeated until no entry changes.
\* Walk returns what the call returns (c, s), the rewritten expression (e) and the threaded state
\* st = [reached, cache, body, changed].
WalkState(B, cache) == [reached |-> {}, cache |-> cache, body |-> B, changed |-> FALSE]
RECURSIVE Walk(_, _, _, _, _)
WalkList(B, S, es, st, rw) ==   \* visit all elements in order; results per element
  LET RECURSIVE F(_, _, _)
      F(k, acc, cur) == IF k > Len(es) THEN [rs |-> acc, st |-> cur]
                        ELSE LET r == Walk(B, S, es[k], cur, rw) IN F(k + 1, Append(acc, r), r.st)
  IN F(1, <<>>, st)
WalkAlt(B, S, e, st, rw) ==
  LET W == WalkList(B, S, e.es, st, rw)
      n == Len(e.es)
      alts == [k \in 1..n |-> W.rs[k].e]
      fs == [k \in 1..n |-> W.rs[k].s]
      consumes == \A k \in 1..n : W.rs[k].c
      all == UNION {fs[k] : k \in 1..n}
      inter == [k \in 1..n |-> fs[k] = {} \/ \E j \in (k + 1)..n : fs[k] \cap fs[j] # {}]
      nInter == Cardinality({k \in 1..n : inter[k]})
      keep == [c |-> consumes, s |-> all, e |-> AltE(alts), st |-> W.st]
  IN IF ~rw \/ ~consumes \/ 2 + nInter >= n THEN keep
     ELSE LET RECURSIVE Place(_, _, _)
              Place(k, acc, maxv) ==
                IF k > n THEN acc
                ELSE IF inter[k] THEN Place(k + 1, acc, maxv)
                ELSE LET len == Cardinality(fs[k]) item == [labels |-> fs[k], e |-> alts[k]] IN
                     IF len > maxv THEN Place(k + 1, Append(acc, item), len) ELSE Place(k + 1, <<item>> \o acc, maxv)
              un == Place(1, <<>>, 0)
              u == UAlt(SubSeq(un, 1, Len(un) - 1), un[Len(un)].e)
              ordered == SelectSeq([k \in 1..n |-> k], LAMBDA k : inter[k])
          IN [keep EXCEPT !.e = IF ordered = <<>> THEN u ELSE AltE([k \in 1..Len(ordered) |-> alts[ordered[k]]] \o <<u>>)]
WalkSeq(B, S, e, st, rw) ==
  \* the first set is collected up to and including the first element that consumes; the rest is visited for its own sake
  LET W == WalkList(B, S, e.es, st, rw)
      n == Len(e.es)
      C == {k \in 1..n : W.rs[k].c}
      stop == IF C = {} THEN n ELSE CHOOSE k \in C : \A j \in C : k <= j
  IN [c |-> C # {}, s |-> UNION {W.rs[k].s : k \in 1..stop}, e |-> [e EXCEPT !.es = [k \in 1..n |-> W.rs[k].e]], st |-> W.st]
Walk(B, S, e, st, rw) ==
  CASE e.op = "chr" -> [c |-> TRUE, s |-> {e.c}, e |-> e, st |-> st]
    [] e.op = "rng" -> [c |-> TRUE, s |-> {c \in S : c # REST /\ c >= e.lo /\ c <= e.hi}, e |-> e, st |-> st]
    [] e.op = "dot" -> [c |-> TRUE, s |-> S, e |-> e, st |-> st]
    [] e.op = "ref" ->
         IF e.r \notin DOMAIN B THEN [c |-> FALSE, s |-> {}, e |-> e, st |-> st]
         ELSE IF e.r \in st.reached THEN [c |-> st.cache[e.r].consumes, s |-> st.cache[e.r].s, e |-> e, st |-> st]
         ELSE LET r == Walk(B, S, B[e.r], [st EXCEPT !.reached = @ \cup {e.r}], rw)
                  entry == [consumes |-> r.c, s |-> r.s]
              IN [c |-> r.c, s |-> r.s, e |-> e,
                  st |-> [r.st EXCEPT !.cache[e.r] = entry, !.body[e.r] = r.e, !.changed = @ \/ r.st.cache[e.r] # entry]]
    [] e.op = "seq" -> WalkSeq(B, S, e, st, rw)
    [] e.op = "alt" -> WalkAlt(B, S, e, st, rw)
    [] e.op \in {"and", "not"} -> LET r == Walk(B, S, e.a, st, rw) IN [c |-> FALSE, s |-> {}, e |-> [e EXCEPT !.a = r.e], st |-> r.st]
    [] e.op \in {"opt", "star"} -> LET r == Walk(B, S, e.a, st, rw) IN [c |-> FALSE, s |-> r.s, e |-> [e EXCEPT !.a = r.e], st |-> r.st]
    [] e.op \in {"plus", "cap"} -> LET r == Walk(B, S, e.a, st, rw) IN [r EXCEPT !.e = [e EXCEPT !.a = r.e]]
    [] OTHER -> [c |-> FALSE, s |-> {}, e |-> e, st |-> st]

EmptyCache(B) == [r \in DOMAIN B |-> [consumes |-> FALSE, s |-> {}]]
AnalysePass(B, S, first, cache) == Walk(B, S, Ref(first), WalkState(B, cache), FALSE).st
RECURSIVE Analyse(_, _, _, _, _)
Analyse(B, S, first, cache, left) ==
  LET st == AnalysePass(B, S, first, cache) IN
  IF left = 0 \/ ~st.changed THEN st.cache ELSE Analyse(B, S, first, st.cache, left - 1)
\* the cache the rewriting pass starts from
CacheBeforeRewrite(B, S, first) ==
  IF FirstPasses = 1 THEN AnalysePass(B, S, first, EmptyCache(B)).cache
  ELSE Analyse(B, S, first, EmptyCache(B), Cardinality(DOMAIN B))
\* the grammar the code emits: rules reached from the first rule are rewritten, the others are left alone
OptGrammarCode(B, A, first) ==
  LET S == Sigma(B, A) IN Walk(B, S, Ref(first), WalkState(B, CacheBeforeRewrite(B, S, first)), TRUE).st.body
\* rules the walk reaches
RECURSIVE ReachFrom(_, _, _)
RECURSIVE RefsOf(_)
RefsOf(e) == CASE e.op = "ref" -> {e.r} [] e.op \in UnaryOps -> RefsOf(e.a)
               [] e.op \in ListOps -> UNION {RefsOf(e.es[k]) : k \in 1..Len(e.es)} [] OTHER -> {}
ReachFrom(B, todo, seen) ==
  IF todo = {} THEN seen
  ELSE LET r == CHOOSE r \in todo : TRUE
           new == (RefsOf(B[r]) \cap DOMAIN B) \ (seen \cup {r})
       IN ReachFrom(B, (todo \ {r}) \cup new, seen \cup {r})
\* for a grammar without left recursion the passes compute the first sets of the idealised definition above
TranscriptionAgrees(B, A, first) ==
  LET O == OptGrammar(B, A) C == OptGrammarCode(B, A, first) R == ReachFrom(B, {first}, {}) IN
  \A r \in DOMAIN B : C[r] = IF r \in R THEN O[r] ELSE B[r]

(* ---------- meaning of the rewritten grammar ----------------------------------------------- *)
\* class of the next character with respect to the label sets
ClassOf(w, i) == IF i < Len(w) THEN w[i + 1] ELSE -1
\* skip: the character that selected the case is known to be accepted by the first mandatory terminal
RECURSIVE EvalO(_, _, _, _, _, _, _)
EvalOSeq(B, O, w, es, i, skip, multi) ==
  LET RECURSIVE F(_, _, _, _)
      F(k, p, toks, adds) ==
        IF k > Len(es) THEN OkR(p, toks, adds)
        ELSE LET r == EvalO(B, O, w, es[k], p, skip /\ k = 1, multi) IN
             IF r.ok THEN F(k + 1, r.pos, toks \o r.toks, adds \o r.adds) ELSE KoR(adds \o r.adds)
  IN F(1, i, <<>>, <<>>)
EvalOAlt(B, O, w, es, i, skip, multi) ==
  LET RECURSIVE F(_, _)
      F(k, adds) == IF k > Len(es) THEN KoR(adds)
                    ELSE LET r == EvalO(B, O, w, es[k], i, SkipThroughAll /\ skip /\ k = 1, multi) IN
                         IF r.ok THEN OkR(r.pos, r.toks, adds \o r.adds) ELSE F(k + 1, adds \o r.adds)
  IN F(1, <<>>)
EvalOStar(B, O, w, a, i, toks, adds, skip, multi) ==
  LET RECURSIVE F(_, _, _)
      F(p, tk, ad) == LET r == EvalO(B, O, w, a, p, SkipThroughAll /\ skip, multi) IN
                      IF r.ok /\ r.pos > p THEN F(r.pos, tk \o r.toks, ad \o r.adds)
                      ELSE IF r.ok THEN OkR(r.pos, tk \o r.toks, ad \o r.adds) ELSE OkR(p, tk, ad \o r.adds)
  IN F(i, toks, adds)
EvalO(B, O, w, e, i, skip, multi) ==
  CASE e.op = "chr" -> IF skip /\ ~multi THEN OkR(i + 1, <<>>, <<>>)
                       ELSE IF i < Len(w) /\ w[i + 1] = e.c THEN OkR(i + 1, <<>>, <<>>) ELSE KoR(<<>>)
    [] e.op = "rng" -> IF skip THEN OkR(i + 1, <<>>, <<>>)
                       ELSE IF i < Len(w) /\ w[i + 1] >= e.lo /\ w[i + 1] <= e.hi THEN OkR(i + 1, <<>>, <<>>) ELSE KoR(<<>>)
    [] e.op = "dot" -> IF skip THEN OkR(i + 1, <<>>, <<>>) ELSE IF i < Len(w) THEN OkR(i + 1, <<>>, <<>>) ELSE KoR(<<>>)
    [] e.op \in {"nil", "chg"} -> OkR(i, <<>>, <<>>)
    [] e.op = "pred" -> IF e.v THEN OkR(i, <<>>, <<>>) ELSE KoR(<<>>)
    [] e.op = "act" -> LET t == <<ActName(e.k), i, i>> IN OkR(i, <<t>>, <<t>>)
    [] e.op = "ref" -> LET r == EvalO(B, O, w, O[e.r], i, FALSE, FALSE) IN       \* a rule function makes its own tests
                       IF r.ok THEN LET t == <<e.r, i, r.pos>> IN OkR(r.pos, Append(r.toks, t), Append(r.adds, t)) ELSE KoR(r.adds)
    [] e.op = "cap" -> LET r == EvalO(B, O, w, e.a, i, skip, multi) IN
                       IF r.ok THEN LET t == <<"PegText", i, r.pos>> IN OkR(r.pos, Append(r.toks, t), Append(r.adds, t)) ELSE KoR(r.adds)
    [] e.op = "and" -> LET r == EvalO(B, O, w, e.a, i, SkipThroughAll /\ skip, multi) IN IF r.ok THEN OkR(i, <<>>, r.adds) ELSE KoR(r.adds)
    [] e.op = "not" -> LET r == EvalO(B, O, w, e.a, i, SkipThroughAll /\ skip, multi) IN IF r.ok THEN KoR(r.adds) ELSE OkR(i, <<>>, r.adds)
    [] e.op = "opt" -> LET r == EvalO(B, O, w, e.a, i, SkipThroughAll /\ skip, multi) IN IF r.ok THEN r ELSE OkR(i, <<>>, r.adds)
    [] e.op = "star" -> EvalOStar(B, O, w, e.a, i, <<>>, <<>>, skip, multi)
    [] e.op = "plus" -> LET r == EvalO(B, O, w, e.a, i, FALSE, FALSE) IN
                        IF r.ok THEN EvalOStar(B, O, w, e.a, r.pos, r.toks, r.adds, FALSE, FALSE) ELSE r
    [] e.op = "seq" -> EvalOSeq(B, O, w, e.es, i, skip, multi)
    [] e.op = "alt" -> EvalOAlt(B, O, w, e.es, i, skip, multi)
    [] e.op = "ualt" -> LET c == ClassOf(w, i)
                            hit == {k \in 1..Len(e.cases) : c \in e.cases[k].labels} IN
                        IF hit # {}
                        THEN LET k == CHOOSE k \in hit : \A j \in hit : k <= j IN
                             EvalO(B, O, w, e.cases[k].e, i, TRUE, Cardinality(e.cases[k].labels) > 1)
                        ELSE EvalO(B, O, w, e.dflt, i, FALSE, FALSE)

ParseO(B, O, w, entry) == EvalO(B, O, w, Ref(entry), 0, FALSE, FALSE)
\* the design-level statement of C02 for -switch
Same(a, b) == a.ok = b.ok /\ (a.ok => a.pos = b.pos /\ a.toks = b.toks)
SwitchSound(B, O, w, entry) == Same(ParseO(B, O, w, entry), Parse(B, w, entry))
RECURSIVE HasUAlt(_)
HasUAlt(e) == e.op = "ualt" \/ (e.op \in UnaryOps /\ HasUAlt(e.a)) \/ (e.op \in ListOps /\ \E k \in 1..Len(e.es) : HasUAlt(e.es[k]))
                \/ (e.op = "ualt" /\ TRUE)
Rewritten(O) == \E r \in DOMAIN O : HasUAlt(O[r])
=============================================================================
