------------------------------ MODULE Optimizer ------------------------------
(***************************************************************************)
(* The -switch optimisation (tree/peg.go, optimizeAlternates and the       *)
(* TypeUnorderedAlternate case of compile) as a transformation on          *)
(* desugared grammars, and the meaning of what it emits.                   *)
(*                                                                         *)
(*  First(e): (consumes, first set) as the optimiser computes them         *)
(*  Rewrite:  the rewritten expression: an ordered choice whose            *)
(*            alternatives all consume and are mostly disjoint becomes     *)
(*              alt(ordered..., ualt(cases, default))                      *)
(*  EvalO:    semantics of the rewritten grammar: a ualt dispatches on the *)
(*            next character, runs exactly one case (no fall-through), and *)
(*            the mandatory first terminal of a case skips its own test    *)
(*            (ParentDetect), unless it is a character test of a           *)
(*            multi-label case (ParentMultipleKey).                        *)
(* Design-level property (MC_Optimizer.cfg):                               *)
(*            for all generated grammars and inputs,                       *)
(*            EvalO(Rewrite(G), w) = Eval(G, w)   (verdict, end, tokens).      *)
(* The rules transcribed here are those of the repaired tree: a choice     *)
(* with an alternative that may consume nothing is left alone, the skip    *)
(* flag reaches only the first element of sequences, captures and inlined  *)
(* rules, labels include the maximum code point.  Variants of the pinned   *)
(* tree can be selected with the constants below to see TLC refute them.   *)
(***************************************************************************)
EXTENDS PegSem

CONSTANTS RewriteNullable,   \* FALSE on the repaired tree; TRUE: pinned behaviour (consumes taken from the last alternative)
          SkipThroughAll     \* FALSE on the repaired tree; TRUE: pinned propagation of the skip flag through & ! ? * and into nested choices

\* characters are compared as code points; REST stands for every character not named in the grammar
REST == -2
RECURSIVE CharsOf(_), CharsOfL(_)
CharsOfL(es) == IF es = <<>> THEN {} ELSE CharsOf(Head(es)) \cup CharsOfL(Tail(es))
CharsOf(e) ==
  CASE e.op = "chr" -> {e.c}
    [] e.op = "rng" -> IF e.lo <= e.hi /\ e.hi - e.lo < 64 THEN e.lo..e.hi ELSE {e.lo, e.hi}
    [] e.op \in UnaryOps -> CharsOf(e.a)
    [] e.op \in ListOps -> CharsOfL(e.es)
    [] OTHER -> {}
\* A: the characters that occur in the inputs under consideration (so that REST never occurs in an input)
Sigma(B, A) == (UNION {CharsOf(B[r]) : r \in DOMAIN B}) \cup A \cup {REST}

(* ---------- first sets as the optimiser computes them ------------------------------------ *)
\* visiting: rules in progress (a rule met again yields the empty set and "does not consume", as in the first pass)
RECURSIVE First(_, _, _, _)
FirstSeq(B, S, es, visiting) ==
  LET RECURSIVE F(_, _)
      F(k, acc) == IF k > Len(es) THEN [consumes |-> FALSE, s |-> acc]
                   ELSE LET r == First(B, S, es[k], visiting) IN
                        IF r.consumes THEN [consumes |-> TRUE, s |-> acc \cup r.s] ELSE F(k + 1, acc \cup r.s)
  IN F(1, {})
FirstAlt(B, S, es, visiting) ==
  LET rs == [k \in 1..Len(es) |-> First(B, S, es[k], visiting)] IN
  [consumes |-> IF RewriteNullable THEN rs[Len(es)].consumes ELSE \A k \in 1..Len(es) : rs[k].consumes,
   s |-> UNION {rs[k].s : k \in 1..Len(es)}]
First(B, S, e, visiting) ==
  CASE e.op = "chr" -> [consumes |-> TRUE, s |-> {e.c}]
    [] e.op = "rng" -> [consumes |-> TRUE, s |-> {c \in S : c # REST /\ c >= e.lo /\ c <= e.hi}]
    [] e.op = "dot" -> [consumes |-> TRUE, s |-> S]
    [] e.op = "ref" -> IF e.r \in visiting \/ e.r \notin DOMAIN B THEN [consumes |-> FALSE, s |-> {}]
                       ELSE First(B, S, B[e.r], visiting \cup {e.r})
    [] e.op = "seq" -> FirstSeq(B, S, e.es, visiting)
    [] e.op = "alt" -> FirstAlt(B, S, e.es, visiting)
    [] e.op \in {"opt", "star"} -> [consumes |-> FALSE, s |-> First(B, S, e.a, visiting).s]
    [] e.op \in {"plus", "cap"} -> First(B, S, e.a, visiting)
    [] OTHER -> [consumes |-> FALSE, s |-> {}]          \* & ! actions predicates nil

(* ---------- the rewrite ------------------------------------------------------------------- *)
UAlt(cases, dflt) == [op |-> "ualt", cases |-> cases, dflt |-> dflt]       \* cases: <<[labels, e]>>

RECURSIVE Rewrite(_, _, _)
OptAlt(B, S, es) ==
  LET n == Len(es)
      alts == [k \in 1..n |-> Rewrite(B, S, es[k])]
      fs == [k \in 1..n |-> First(B, S, es[k], {})]
      allConsume == IF RewriteNullable THEN fs[n].consumes ELSE \A k \in 1..n : fs[k].consumes
      inter == [k \in 1..n |-> \E j \in (k + 1)..n : fs[k].s \cap fs[j].s # {}]
      nInter == Cardinality({k \in 1..n : inter[k]})
  IN IF ~allConsume \/ 2 + nInter >= n THEN AltE(alts)
     ELSE LET ordered == SelectSeq([k \in 1..n |-> [i |-> k]], LAMBDA x : inter[x.i])
              \* unordered: larger sets go to the back (the last one becomes the default), others to the front
              RECURSIVE Place(_, _, _)
              Place(k, acc, maxv) ==
                IF k > n THEN acc
                ELSE IF inter[k] THEN Place(k + 1, acc, maxv)
                ELSE LET len == Cardinality(fs[k].s) item == [labels |-> fs[k].s, e |-> alts[k]] IN
                     IF len > maxv THEN Place(k + 1, Append(acc, item), len) ELSE Place(k + 1, <<item>> \o acc, maxv)
              un == Place(1, <<>>, 0)
              u == UAlt(SubSeq(un, 1, Len(un) - 1), un[Len(un)].e)
          IN IF ordered = <<>> THEN u ELSE AltE([k \in 1..Len(ordered) |-> alts[ordered[k].i]] \o <<u>>)
Rewrite(B, S, e) ==
  CASE e.op = "alt" -> OptAlt(B, S, e.es)
    [] e.op = "seq" -> [e EXCEPT !.es = [k \in 1..Len(e.es) |-> Rewrite(B, S, e.es[k])]]
    [] e.op \in UnaryOps -> [e EXCEPT !.a = Rewrite(B, S, e.a)]
    [] OTHER -> e
OptGrammar(B, A) == [r \in DOMAIN B |-> Rewrite(B, Sigma(B, A), B[r])]

(* ---------- meaning of the rewritten grammar ----------------------------------------------- *)
\* class of the next character with respect to the label sets
ClassOf(w, i) == IF i < Len(w) THEN w[i + 1] ELSE -1
\* skip: the character that selected the case is known to be accepted by the first mandatory terminal
RECURSIVE EvalO(_, _, _, _, _, _, _)
EvalOSeq(B, O, w, es, i, skip, multi) ==
  LET RECURSIVE F(_, _, _, _)
      F(k, p, toks, adds) ==
        IF k > Len(es) THEN OkR(p, toks, adds)
        ELSE LET r == EvalO(B, O, w, es[k], p, skip /\ k = 1, multi) IN
             IF r.ok THEN F(k + 1, r.pos, toks \o r.toks, adds \o r.adds) ELSE KoR(adds \o r.adds)
  IN F(1, i, <<>>, <<>>)
EvalOAlt(B, O, w, es, i, skip, multi) ==
  LET RECURSIVE F(_, _)
      F(k, adds) == IF k > Len(es) THEN KoR(adds)
                    ELSE LET r == EvalO(B, O, w, es[k], i, SkipThroughAll /\ skip /\ k = 1, multi) IN
                         IF r.ok THEN OkR(r.pos, r.toks, adds \o r.adds) ELSE F(k + 1, adds \o r.adds)
  IN F(1, <<>>)
EvalOStar(B, O, w, a, i, toks, adds, skip, multi) ==
  LET RECURSIVE F(_, _, _)
      F(p, tk, ad) == LET r == EvalO(B, O, w, a, p, SkipThroughAll /\ skip, multi) IN
                      IF r.ok /\ r.pos > p THEN F(r.pos, tk \o r.toks, ad \o r.adds)
                      ELSE IF r.ok THEN OkR(r.pos, tk \o r.toks, ad \o r.adds) ELSE OkR(p, tk, ad \o r.adds)
  IN F(i, toks, adds)
EvalO(B, O, w, e, i, skip, multi) ==
  CASE e.op = "chr" -> IF skip /\ ~multi THEN OkR(i + 1, <<>>, <<>>)
                       ELSE IF i < Len(w) /\ w[i + 1] = e.c THEN OkR(i + 1, <<>>, <<>>) ELSE KoR(<<>>)
    [] e.op = "rng" -> IF skip THEN OkR(i + 1, <<>>, <<>>)
                       ELSE IF i < Len(w) /\ w[i + 1] >= e.lo /\ w[i + 1] <= e.hi THEN OkR(i + 1, <<>>, <<>>) ELSE KoR(<<>>)
    [] e.op = "dot" -> IF skip THEN OkR(i + 1, <<>>, <<>>) ELSE IF i < Len(w) THEN OkR(i + 1, <<>>, <<>>) ELSE KoR(<<>>)
    [] e.op \in {"nil", "chg"} -> OkR(i, <<>>, <<>>)
    [] e.op = "pred" -> IF e.v THEN OkR(i, <<>>, <<>>) ELSE KoR(<<>>)
    [] e.op = "act" -> LET t == <<ActName(e.k), i, i>> IN OkR(i, <<t>>, <<t>>)
    [] e.op = "ref" -> LET r == EvalO(B, O, w, O[e.r], i, FALSE, FALSE) IN       \* a rule function makes its own tests
                       IF r.ok THEN LET t == <<e.r, i, r.pos>> IN OkR(r.pos, Append(r.toks, t), Append(r.adds, t)) ELSE KoR(r.adds)
    [] e.op = "cap" -> LET r == EvalO(B, O, w, e.a, i, skip, multi) IN
                       IF r.ok THEN LET t == <<"PegText", i, r.pos>> IN OkR(r.pos, Append(r.toks, t), Append(r.adds, t)) ELSE KoR(r.adds)
    [] e.op = "and" -> LET r == EvalO(B, O, w, e.a, i, SkipThroughAll /\ skip, multi) IN IF r.ok THEN OkR(i, <<>>, r.adds) ELSE KoR(r.adds)
    [] e.op = "not" -> LET r == EvalO(B, O, w, e.a, i, SkipThroughAll /\ skip, multi) IN IF r.ok THEN KoR(r.adds) ELSE OkR(i, <<>>, r.adds)
    [] e.op = "opt" -> LET r == EvalO(B, O, w, e.a, i, SkipThroughAll /\ skip, multi) IN IF r.ok THEN r ELSE OkR(i, <<>>, r.adds)
    [] e.op = "star" -> EvalOStar(B, O, w, e.a, i, <<>>, <<>>, skip, multi)
    [] e.op = "plus" -> LET r == EvalO(B, O, w, e.a, i, FALSE, FALSE) IN
                        IF r.ok THEN EvalOStar(B, O, w, e.a, r.pos, r.toks, r.adds, FALSE, FALSE) ELSE r
    [] e.op = "seq" -> EvalOSeq(B, O, w, e.es, i, skip, multi)
    [] e.op = "alt" -> EvalOAlt(B, O, w, e.es, i, skip, multi)
    [] e.op = "ualt" -> LET c == ClassOf(w, i)
                            hit == {k \in 1..Len(e.cases) : c \in e.cases[k].labels} IN
                        IF hit # {}
                        THEN LET k == CHOOSE k \in hit : \A j \in hit : k <= j IN
                             EvalO(B, O, w, e.cases[k].e, i, TRUE, Cardinality(e.cases[k].labels) > 1)
                        ELSE EvalO(B, O, w, e.dflt, i, FALSE, FALSE)

ParseO(B, O, w, entry) == EvalO(B, O, w, Ref(entry), 0, FALSE, FALSE)
\* the design-level statement of C02 for -switch
Same(a, b) == a.ok = b.ok /\ (a.ok => a.pos = b.pos /\ a.toks = b.toks)
SwitchSound(B, O, w, entry) == Same(ParseO(B, O, w, entry), Parse(B, w, entry))
RECURSIVE HasUAlt(_)
HasUAlt(e) == e.op = "ualt" \/ (e.op \in UnaryOps /\ HasUAlt(e.a)) \/ (e.op \in ListOps /\ \E k \in 1..Len(e.es) : HasUAlt(e.es[k]))
                \/ (e.op = "ualt" /\ TRUE)
Rewritten(O) == \E r \in DOMAIN O : HasUAlt(O[r])
=============================================================================
