--------------------------- MODULE MCAnalysisConc ---------------------------
EXTENDS AnalysisConc
\* a small grammar with mutual and direct left recursion, a rule referenced twice and an unreachable rule:
\*   A <- B C B ;  B <- A? C ;  C <- C 'x' / 'y' ;  D <- 'd' A
MC_Rules == <<"A", "B", "C", "D">>
MC_Calls == [A |-> <<"B", "C", "B">>, B |-> <<"A", "C">>, C |-> <<"C">>, D |-> <<"A">>]
MC_Left == [A |-> <<"B">>, B |-> <<"A", "C">>, C |-> <<"C">>, D |-> <<>>]
=============================================================================
