SPECIFICATION Spec
CONSTANTS
  Variant = "pred-true"
INVARIANT Sound
INVARIANT VariantOff
CHECK_DEADLOCK FALSE
