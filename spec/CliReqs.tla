--------------------------------- MODULE CliReqs ------------------------------
(***************************************************************************)
(* The requirement C18 on the peg command, over scenarios.                  *)
(* A scenario fixes source, grammar text kind, destination, whether the    *)
(* destination exists already (with longer content), -strict and options.  *)
(***************************************************************************)
EXTENDS Integers, Sequences, FiniteSets, TLC

Srcs   == {"file", "stdin", "dash", "missing", "directory"}
Texts  == {"valid", "warned", "syntax", "empty"}
Dests  == {"default", "named", "stdout", "missingdir", "isdir", "devfull"}
Pres   == {"absent", "longer"}
Opts   == {"", "i", "s", "is", "n", "nis"}

Scenarios == [src : Srcs, text : Texts, dest : Dests, pre : Pres, strict : BOOLEAN, opt : Opts]

\* where the output goes: a file, standard output, or nowhere openable
\* (default: <grammar>.go when a file argument is given, else standard output)
DestKind(sc) ==
  CASE sc.dest = "default" -> IF sc.src \in {"file", "missing", "directory"} THEN "file" ELSE "stdout"
    [] sc.dest = "named" -> "file"
    [] sc.dest = "stdout" -> "stdout"
    [] sc.dest = "devfull" -> "devfull"
    [] OTHER -> "unopenable"

(* ---------- requirement ---------------------------------------------------- *)
SourceOK(sc) == sc.src \in {"file", "stdin", "dash"}
TextOK(sc) == sc.text \in {"valid", "warned"}
\* a scenario in which no complete parser can be delivered
Failure(sc) == ~SourceOK(sc) \/ ~TextOK(sc) \/ DestKind(sc) \in {"unopenable", "devfull"} \/ (sc.text = "warned" /\ sc.strict)
\* obs: [exit, stderr (BOOLEAN: non-empty), dest \in {"absent","empty","complete","other"}]
CliReq(sc, obs) ==
  /\ obs.exit = 0 => obs.dest = "complete"
  /\ Failure(sc) => obs.exit # 0 /\ obs.stderr
  /\ ~Failure(sc) => obs.exit = 0 /\ obs.dest = "complete"
  /\ (sc.text = "warned" /\ ~Failure(sc)) => obs.stderr
  /\ (sc.text = "valid" /\ ~Failure(sc)) => ~obs.stderr
=============================================================================
