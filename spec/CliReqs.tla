--------------------------------- MODULE CliReqs ------------------------------
(***************************************************************************)
(* The requirement C18 on the peg command, over scenarios.                  *)
(* A scenario fixes source, grammar text kind, destination, whether the    *)
(* destination exists already (with longer content), -strict and options.  *)
(***************************************************************************)
EXTENDS Integers, Sequences, FiniteSets, TLC

\* "fileopt": an option typed after the grammar file (flag parsing stops at the first non-flag); "file2": two grammar files.
\* main.go ignores what follows the grammar file.  "validlong": a valid grammar with one line of 100 000 characters.
Srcs   == {"file", "stdin", "dash", "missing", "directory", "fileopt", "file2"}
Texts  == {"valid", "warned", "syntax", "empty", "validlong"}
Dests  == {"default", "named", "stdout", "missingdir", "isdir", "devfull"}
Pres   == {"absent", "longer"}
Opts   == {"", "i", "s", "is", "n", "nis"}

Scenarios == [src : Srcs, text : Texts, dest : Dests, pre : Pres, strict : BOOLEAN, opt : Opts]

\* where the output goes: a file, standard output, or nowhere openable
\* (default: <grammar>.go when a file argument is given, else standard output)
DestKind(sc) ==
  CASE sc.dest = "default" -> IF sc.src \in {"file", "missing", "directory", "fileopt", "file2"} THEN "file" ELSE "stdout"
    [] sc.dest = "named" -> "file"
    [] sc.dest = "stdout" -> "stdout"
    [] sc.dest = "devfull" -> "devfull"
    [] OTHER -> "unopenable"

(* ---------- requirement ---------------------------------------------------- *)
SourceOK(sc) == sc.src \in {"file", "stdin", "dash", "fileopt", "file2"}
TextOK(sc) == sc.text \in {"valid", "warned", "validlong"}
\* surplus arguments: the property does not say whether they are an error, only that exit 0 means a complete parser
Lenient(sc) == sc.src \in {"fileopt", "file2"}
\* a scenario in which no complete parser can be delivered
Failure(sc) == ~SourceOK(sc) \/ ~TextOK(sc) \/ DestKind(sc) \in {"unopenable", "devfull"} \/ (sc.text = "warned" /\ sc.strict)
\* obs: [exit, stderr (BOOLEAN: non-empty), dest \in {"absent","empty","complete","other"}]
CliReq(sc, obs) ==
  /\ obs.exit = 0 => obs.dest = "complete"
  /\ obs.exit # 0 => obs.stderr
  /\ Failure(sc) => obs.exit # 0 /\ obs.stderr
  /\ (~Failure(sc) /\ ~Lenient(sc)) => obs.exit = 0 /\ obs.dest = "complete"
  /\ (sc.text = "warned" /\ ~Failure(sc) /\ obs.exit = 0) => obs.stderr
  /\ (sc.text \in {"valid", "validlong"} /\ ~Failure(sc) /\ obs.exit = 0) => ~obs.stderr
=============================================================================
