----------------------------- MODULE JudgeSyntax -----------------------------
(***************************************************************************)
(* C10 round trip: the rule tree the real front end builds from            *)
(* Render(G, style) must denote G, for every documented spelling.  The     *)
(* expected tree is PegSyntax!Desugar(G) (what each construct is           *)
(* documented to mean); both sides are compared up to the associativity of *)
(* sequence and choice.  Imports must keep path and alias.  Mutated texts  *)
(* (driver side) must be rejected or accepted without crashing and without *)
(* losing every rule.                                                      *)
(***************************************************************************)
EXTENDS TreeBuilder, Json, IOUtils

Recs   == ndJsonDeserialize(IOEnv.JUDGE_IN)       \* [sc, outs]
CHUNKS == atoi(IOEnv.JUDGE_CHUNKS)
OUTDIR == IOEnv.JUDGE_OUT

\* expected tree in the vocabulary of the dump: probes become their verbatim Go text
RECURSIVE DumpForm(_)
DumpForm(e) ==
  CASE e.op \in UnaryOps -> [e EXCEPT !.a = DumpForm(e.a)]
    [] e.op \in ListOps -> [e EXCEPT !.es = [i \in 1..Len(e.es) |-> DumpForm(e.es[i])]]
    [] e.op = "act" -> [op |-> "rawact", t |-> " p.Act(" \o ToString(e.k) \o ", text, begin, end) "]
    [] e.op = "pred" -> [op |-> "rawpred", t |-> IF e.v THEN " p.Yes() " ELSE " p.No() "]
    [] e.op = "chg" -> [op |-> "rawchg", t |-> " p.Chg(" \o ToString(e.k) \o ") "]
    [] OTHER -> e
Expected(G) == [i \in 1..Len(G.rules) |-> [name |-> G.rules[i].name, body |-> Flat(DumpForm(Desugar(G.rules[i].body)))]]
RECURSIVE Undump(_)
Undump(e) ==     \* JSON objects come back as records; arrays as sequences: re-shape unary / list nodes
  CASE e.op \in UnaryOps -> [op |-> e.op, a |-> Undump(e.a)]
    [] e.op \in ListOps -> [op |-> e.op, es |-> [i \in 1..Len(e.es) |-> Undump(e.es[i])]]
    [] OTHER -> e
Got(out) == [i \in 1..Len(out.rules) |-> [name |-> out.rules[i].name, body |-> Flat(Undump(out.rules[i].body))]]

ImportSet(imps) == {IF imps[i].alias = "" THEN imps[i].path ELSE imps[i].path \o "=" \o imps[i].alias : i \in 1..Len(imps)}
If(c, x) == IF c THEN <<x>> ELSE <<>>
Mis(sc, o, field, want, got) == [kind |-> "mis", prop |-> "C10", id |-> sc.id, variant |-> o.variant, field |-> field, style |-> sc.style,
                                 want |-> want, got |-> got, mkind |-> o.kind, at |-> o.at]
JudgeOut(sc, o) ==
  IF o.variant = 0 THEN
    If(o.panic # "", Mis(sc, o, "front-end-panic", "", o.panic)) \o
    If(o.panic = "" /\ ~o.ok, Mis(sc, o, "rejected", "accepted", o.err)) \o
    (IF o.panic # "" \/ ~o.ok THEN <<>> ELSE
       If(Got(o) # Expected(sc.grammar), Mis(sc, o, "tree", Expected(sc.grammar), Got(o))) \o
       \* the recorded builder calls are a behaviour of TreeBuilder that respects the stack discipline
       \* and denotes the same grammar
       (LET b == Replay(o.calls, 1, Empty)
            built == [i \in 1..Len(BuildResult(b)) |-> [name |-> BuildResult(b)[i].name, body |-> Flat(BuildResult(b)[i].body)]]
        IN If(b.bad # "", Mis(sc, o, "builder-discipline", "", b.bad)) \o
           If(b.bad = "" /\ ~Closed(b), Mis(sc, o, "builder-left-open", "nothing under construction at the end", Len(b.l))) \o
           If(b.bad = "" /\ built # Got(o), Mis(sc, o, "builder-model-tree", built, Got(o)))) \o
       \* imports keep their path and alias: every import of the grammar is in the generated import list as written, and the
       \* generator invents no alias of its own (which packages the runtime itself imports is not our business)
       (LET got == {<<o.importpairs[i][1], o.importpairs[i][2]>> : i \in 1..Len(o.importpairs)}
            want == {<<sc.imports[i].path, sc.imports[i].alias>> : i \in 1..Len(sc.imports)}
        IN If(~(want \subseteq got) \/ \E x \in got : x[2] # "" /\ x \notin want, Mis(sc, o, "imports", want, got))) \o
       If(o.package # "g" \/ o.struct # "T", Mis(sc, o, "header", <<"g", "T">>, <<o.package, o.struct>>)))
  ELSE \* a mutated text: an error, or a grammar; never a crash, never a parser without rules
    If(o.panic # "", Mis(sc, o, "mutant-panic", "", o.panic)) \o
    If(o.panic # "", [Mis(sc, o, "front-end-panics-on-text", "", o.panic) EXCEPT !.prop = "C13"]) \o
    If(o.panic = "" /\ o.ok /\ o.nrules = 0, Mis(sc, o, "mutant-empty-parser", "error or rules", 0))
RECURSIVE JudgeOuts(_, _, _)
JudgeOuts(sc, outs, k) == IF k > Len(outs) THEN <<>> ELSE JudgeOut(sc, outs[k]) \o JudgeOuts(sc, outs, k + 1)
JudgeRec(rec) == JudgeOuts(rec.sc, rec.outs, 1) \o
  <<[kind |-> "stat", id |-> rec.sc.id, outs |-> Len(rec.outs), calls |-> Len(rec.outs[1].calls),
     rejected |-> Cardinality({k \in 1..Len(rec.outs) : ~rec.outs[k].ok}), accepted |-> Cardinality({k \in 1..Len(rec.outs) : rec.outs[k].ok})]>>
RECURSIVE JudgeChunk(_)
JudgeChunk(n) == IF n > Len(Recs) THEN <<>> ELSE JudgeRec(Recs[n]) \o JudgeChunk(n + CHUNKS)

VARIABLES chunk, done
Init == chunk \in 1..CHUNKS /\ done = FALSE
Next == /\ ~done /\ done' = TRUE /\ chunk' = chunk
        /\ ndJsonSerialize(OUTDIR \o "/verdict_" \o ToString(chunk) \o ".ndjson", JudgeChunk(chunk))
Spec == Init /\ [][Next]_<<chunk, done>>
=============================================================================
