----------------------------- MODULE GenCorpus -----------------------------
(***************************************************************************)
(* Scenario enumeration for the parser corpus: TLC generates grammars      *)
(* (seeded, reproducible, independent of worker scheduling), keeps the     *)
(* well-formed ones, renders their .peg text and writes one NDJSON record  *)
(* per scenario.  Parameters come from the environment (IOEnv):            *)
(*   GEN_FAMILY, GEN_SEED, GEN_N (candidates), GEN_CHUNKS, GEN_OUT (dir)   *)
(***************************************************************************)
EXTENDS PegSem, Json, IOUtils

FAMILY == IOEnv.GEN_FAMILY
SEED   == atoi(IOEnv.GEN_SEED)
NCAND  == atoi(IOEnv.GEN_N)
CHUNKS == atoi(IOEnv.GEN_CHUNKS)
OUTDIR == IOEnv.GEN_OUT

(* ---------- a small deterministic hash / PRNG (32-bit safe) -------------- *)
M == 46309
Sq(x) == (x * x + 17 * x + 5) % M
H(s, i) == Sq((Sq(((s % M) * 31 + (i % 1499) * 1009 + 12347) % M) + (i % 97)) % M)
Pick(s, i, n) == (H(s, i) \div 7) % n            \* in 0..n-1

RuleName(i) == <<"A", "B", "C", "D", "E", "F">>[i]

(* ---------- random expressions ------------------------------------------- *)
\* cx: [self, n, alpha (sequence of code points), acts, caps, preds (booleans), sugar]
ConsAtom(s, cx) ==
  LET k == Pick(s, 1, 10)
      a == cx.alpha
      c1 == a[1 + Pick(s, 2, Len(a))]
      c2 == a[1 + Pick(s, 3, Len(a))]
  IN CASE k \in 0..4 -> Chr(c1)
       [] k = 5 -> Dot
       [] k = 6 -> Rng(IF c1 <= c2 THEN c1 ELSE c2, IF c1 <= c2 THEN c2 ELSE c1)
       [] k = 7 -> IF cx.sugar THEN IChr(c1) ELSE Chr(c1)
       [] k = 8 -> IF cx.sugar THEN Str(<<c1, c2>>, Pick(s, 4, 3) = 0) ELSE SeqE(<<Chr(c1), Chr(c2)>>)
       [] k = 9 -> IF cx.sugar
                   THEN Cls(<<IF Pick(s, 5, 2) = 0 THEN Single(c1) ELSE Item(IF c1 <= c2 THEN c1 ELSE c2, IF c1 <= c2 THEN c2 ELSE c1),
                              Single(a[1 + Pick(s, 6, Len(a))])>>, Pick(s, 7, 2) = 0, Pick(s, 8, 4) = 0)
                   ELSE Rng(c1, c1)

Atom(s, cx) ==
  LET k == Pick(s, 11, 20) IN
  CASE k \in 0..10 -> ConsAtom(s, cx)
    [] k \in 11..13 -> IF cx.self < cx.n THEN Ref(RuleName(cx.self + 1 + Pick(s, 12, cx.n - cx.self))) ELSE ConsAtom(s, cx)
    [] k = 14 -> Nil
    [] k = 15 -> IF cx.acts THEN Act(0) ELSE ConsAtom(s, cx)
    [] k = 16 -> IF cx.preds THEN Pred(Pick(s, 13, 3) # 0) ELSE ConsAtom(s, cx)
    [] k = 17 -> SeqE(<<ConsAtom(s, cx), Ref(RuleName(1 + Pick(s, 14, cx.n)))>>)   \* guarded (possibly recursive) call
    [] k \in 18..19 -> IF cx.self < cx.n THEN Ref(RuleName(cx.n)) ELSE ConsAtom(s, cx)

RECURSIVE GenE(_, _, _)
GenE(s, d, cx) ==
  IF d = 0 THEN Atom(s, cx)
  ELSE LET k == Pick(s, 21, 30)
           sub(j) == GenE(H(s, 100 + j), d - 1, cx)
       IN CASE k \in 0..4 -> Atom(s, cx)
            [] k \in 5..8 -> SeqE(<<sub(1), sub(2)>>)
            [] k = 9 -> SeqE(<<sub(1), sub(2), sub(3)>>)
            [] k \in 10..12 -> AltE(<<sub(1), sub(2)>>)
            [] k \in 13..16 -> AltE(<<sub(1), sub(2), sub(3)>>)
            [] k = 17 -> AltE(<<sub(1), sub(2), sub(3), sub(4)>>)
            [] k \in 18..19 -> Opt(sub(1))
            [] k \in 20..21 -> Star(sub(1))
            [] k \in 22..23 -> Plus(sub(1))
            [] k = 24 -> And(sub(1))
            [] k \in 25..26 -> Not(sub(1))
            [] k \in 27..28 -> IF cx.caps THEN Cap(sub(1)) ELSE sub(1)
            [] k = 29 -> IF cx.acts THEN SeqE(<<sub(1), Act(0)>>) ELSE sub(1)

(* keep only rules reachable from the first one, in definition order *)
Prune(G) ==
  LET B == BodyMap(G)
      R == Closure([r \in DOMAIN B |-> Refs(B[r]) \cap DOMAIN B], {G.rules[1].name})
  IN [rules |-> SelectSeq(G.rules, LAMBDA r : r.name \in R)]

GenGrammar(s, cx0, depth) ==
  LET n == 1 + Pick(s, 31, cx0.maxrules)
      rules == [i \in 1..n |-> [name |-> RuleName(i),
                                body |-> GenE(H(s, 40 + i), IF i = 1 THEN depth ELSE depth - 1 + Pick(s, 50 + i, 2),
                                              [cx0 EXCEPT !.self = i, !.n = n])]]
  IN NumberActions(Prune([rules |-> rules]))

(* ---------- inputs ------------------------------------------------------- *)
RECURSIVE AllStrings(_, _)
AllStrings(alpha, n) ==
  IF n = 0 THEN {<<>>}
  ELSE LET S == AllStrings(alpha, n - 1) IN
       S \cup {Append(w, alpha[k]) : w \in {x \in S : Len(x) = n - 1}, k \in 1..Len(alpha)}

RndString(s, alpha, len) == [j \in 1..len |-> alpha[1 + Pick(s, 200 + j, Len(alpha))]]

SetToSeq(S) == LET f == CHOOSE f \in [1..Cardinality(S) -> S] : \A i, j \in 1..Cardinality(S) : i # j => f[i] # f[j] IN f

\* deterministic order: by length then lexicographic, via a recursive builder
RECURSIVE StringsOrdered(_, _)
StringsOrdered(alpha, n) ==
  IF n = 0 THEN << <<>> >>
  ELSE LET prev == StringsOrdered(alpha, n - 1)
           last == SelectSeq(prev, LAMBDA w : Len(w) = n - 1)
           ext == [k \in 1..(Len(last) * Len(alpha)) |->
                     Append(last[((k - 1) \div Len(alpha)) + 1], alpha[((k - 1) % Len(alpha)) + 1])]
       IN prev \o ext

(* ---------- families ----------------------------------------------------- *)
ABC == <<97, 98, 99>>
Plain4 == <<"", "i", "s", "is">>
All8 == <<"", "i", "s", "is", "n", "ni", "ns", "nis">>

PlanEntry(entry, memo, size, u, skipi) == [entry |-> entry, memo |-> memo, size |-> size, u |-> u, skipi |-> skipi]

\* family parameters
Fam ==
  CASE FAMILY = "core" ->   \* C01 C02 C03 C06: every core operator, sugar, predicates; tokens only
         [cx |-> [alpha |-> ABC, acts |-> TRUE, caps |-> TRUE, preds |-> TRUE, sugar |-> TRUE, maxrules |-> 4, self |-> 1, n |-> 1],
          depth |-> 3, optsets |-> Plain4, exhaust |-> 3, alphaIn |-> ABC, extraAlpha |-> <<97, 98, 99, 65, 100>>, nextra |-> 10,
          collect |-> [toks |-> TRUE, exec |-> FALSE, ast |-> FALSE, msg |-> FALSE], entries |-> TRUE, memoOff |-> TRUE, act |-> "full"]
    [] FAMILY = "act" ->    \* C04 C05 C11: actions and captures everywhere; multi-line, multi-byte inputs
         [cx |-> [alpha |-> <<97, 98, 10, 233, 27721>>, acts |-> TRUE, caps |-> TRUE, preds |-> FALSE, sugar |-> FALSE, maxrules |-> 3, self |-> 1, n |-> 1],
          depth |-> 3, optsets |-> <<"">>, exhaust |-> 2, alphaIn |-> <<97, 98, 10, 233, 27721>>, extraAlpha |-> <<97, 98, 10, 233, 27721, 128512>>, nextra |-> 30,
          collect |-> [toks |-> TRUE, exec |-> TRUE, ast |-> TRUE, msg |-> TRUE], entries |-> FALSE, memoOff |-> FALSE, act |-> "full"]
    [] FAMILY = "noast" ->  \* C07
         [cx |-> [alpha |-> ABC, acts |-> TRUE, caps |-> TRUE, preds |-> TRUE, sugar |-> FALSE, maxrules |-> 3, self |-> 1, n |-> 1],
          depth |-> 3, optsets |-> All8, exhaust |-> 3, alphaIn |-> ABC, extraAlpha |-> <<97, 98, 99, 100>>, nextra |-> 10,
          collect |-> [toks |-> TRUE, exec |-> TRUE, ast |-> FALSE, msg |-> FALSE], entries |-> FALSE, memoOff |-> FALSE, act |-> "text"]

Style(G) == [DefaultStyle EXCEPT !.act = IF Fam.act = "full" THEN "full" ELSE IF HasCapture(G) THEN "text" ELSE "none"]

Inputs(s) ==
  LET base == StringsOrdered(Fam.alphaIn, Fam.exhaust)
      extra == [j \in 1..Fam.nextra |-> RndString(H(s, 300 + j), Fam.extraAlpha, Fam.exhaust + 1 + Pick(s, 400 + j, 3))]
  IN [k \in 1..(Len(base) + Len(extra)) |-> [r |-> IF k <= Len(base) THEN base[k] ELSE extra[k - Len(base)]]]

Plan(G) ==
  <<PlanEntry("", TRUE, 0, "uint32", FALSE)>> \o
  (IF Fam.memoOff THEN <<PlanEntry("", FALSE, 0, "uint32", FALSE)>> ELSE <<>>) \o
  (IF Fam.entries THEN [k \in 1..(Len(G.rules) - 1) |-> PlanEntry(G.rules[k + 1].name, TRUE, 0, "uint32", TRUE)] ELSE <<>>)

Candidate(n) == GenGrammar(H(H(SEED, n), n \div 1499), Fam.cx, Fam.depth)

Scenario(n) ==
  LET G == Candidate(n) IN
  [id |-> n, family |-> FAMILY, seed |-> SEED, grammar |-> G, text |-> Render(G, Style(G)),
   optsets |-> Fam.optsets, inputs |-> Inputs(H(SEED, n + 17)), plan |-> Plan(G), hist |-> <<>>,
   collect |-> Fam.collect, allu |-> FALSE, norun |-> FALSE]

IsWF(n) == WFB(BodyMap(Core(Candidate(n))))

RECURSIVE Collect(_, _)
Collect(c, n) ==   \* scenarios of chunk c: candidates n = c, c + CHUNKS, ...
  IF n > NCAND THEN <<>>
  ELSE (IF IsWF(n) THEN <<Scenario(n)>> ELSE <<>>) \o Collect(c, n + CHUNKS)

VARIABLES chunk, done
Init == chunk \in 1..CHUNKS /\ done = FALSE
Next == /\ ~done
        /\ done' = TRUE
        /\ chunk' = chunk
        /\ ndJsonSerialize(OUTDIR \o "/scen_" \o ToString(chunk) \o ".ndjson", Collect(chunk, chunk))
Spec == Init /\ [][Next]_<<chunk, done>>
=============================================================================
