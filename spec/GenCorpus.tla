----------------------------- MODULE GenCorpus -----------------------------
(***************************************************************************)
(* Scenario enumeration for the parser corpus: TLC generates grammars      *)
(* (seeded, reproducible, independent of worker scheduling), keeps the     *)
(* well-formed ones, renders their .peg text and writes one NDJSON record  *)
(* per scenario.  Parameters come from the environment (IOEnv):            *)
(*   GEN_FAMILY, GEN_SEED, GEN_N (candidates), GEN_CHUNKS, GEN_OUT (dir)   *)
(***************************************************************************)
EXTENDS Analysis, Json, IOUtils

FAMILY == IOEnv.GEN_FAMILY
SEED   == atoi(IOEnv.GEN_SEED)
NCAND  == atoi(IOEnv.GEN_N)
CHUNKS == atoi(IOEnv.GEN_CHUNKS)
OUTDIR == IOEnv.GEN_OUT

(* ---------- a small deterministic hash / PRNG (32-bit safe) -------------- *)
M == 46309
Sq(x) == (x * x + 17 * x + 5) % M
H(s, i) == Sq((Sq(((s % M) * 31 + (i % 1499) * 1009 + 12347) % M) + (i % 97)) % M)
Pick(s, i, n) == (H(s, i) \div 7) % n            \* in 0..n-1

Plain4 == <<"", "i", "s", "is">>
All8 == <<"", "i", "s", "is", "n", "ni", "ns", "nis">>
RuleName(i) == <<"A", "B", "C", "D", "E", "F">>[i]

(* ---------- random expressions ------------------------------------------- *)
\* cx: [self, n, alpha (sequence of code points), acts, caps, preds (booleans), sugar]
ConsAtom(s, cx) ==
  LET k == Pick(s, 1, 10)
      a == cx.alpha
      c1 == a[1 + Pick(s, 2, Len(a))]
      c2 == a[1 + Pick(s, 3, Len(a))]
  IN CASE k \in 0..4 -> Chr(c1)
       [] k = 5 -> Dot
       \* (one range in eight is written the wrong way round, [z-a]: it is accepted by the front end and matches nothing)
       [] k = 6 -> IF c1 # c2 /\ Pick(s, 10, 8) = 0 THEN Rng(IF c1 <= c2 THEN c2 ELSE c1, IF c1 <= c2 THEN c1 ELSE c2)
                   ELSE Rng(IF c1 <= c2 THEN c1 ELSE c2, IF c1 <= c2 THEN c2 ELSE c1)
       [] k = 7 -> IF cx.sugar THEN IChr(c1) ELSE Chr(c1)
       [] k = 8 -> IF cx.sugar THEN Str(<<c1, c2>>, Pick(s, 4, 3) = 0) ELSE SeqE(<<Chr(c1), Chr(c2)>>)
       [] k = 9 -> IF cx.sugar
                   THEN LET ci == Pick(s, 8, 4) = 0
                            \* case-insensitive classes stay within ASCII: the builder folds range ends with strings.ToLower/ToUpper,
                            \* which also maps non-ASCII letters, while PegSyntax!Lower/Upper describe ASCII only (and see PegSyntax!ItemsS)
                            lim(c) == IF ci /\ c >= 128 THEN 97 ELSE c
                            d1 == lim(c1) d2 == lim(c2) d3 == lim(a[1 + Pick(s, 6, Len(a))])
                            first == IF Pick(s, 5, 2) = 0 THEN Single(d1) ELSE Item(IF d1 <= d2 THEN d1 ELSE d2, IF d1 <= d2 THEN d2 ELSE d1)
                        IN Cls(IF Pick(s, 9, 3) = 0 THEN <<first>> ELSE <<first, Single(d3)>>, Pick(s, 7, 2) = 0, ci)   \* one or two items
                   ELSE Rng(c1, c1)

Atom(s, cx) ==
  LET k == Pick(s, 11, 20) IN
  CASE k \in 0..10 -> ConsAtom(s, cx)
    [] k \in 11..13 -> IF cx.self < cx.n THEN Ref(RuleName(cx.self + 1 + Pick(s, 12, cx.n - cx.self))) ELSE ConsAtom(s, cx)
    [] k = 14 -> Nil
    [] k = 15 -> IF cx.acts THEN Act(0) ELSE ConsAtom(s, cx)
    [] k = 16 -> IF cx.preds THEN (IF Pick(s, 13, 4) = 3 THEN Chg(Pick(s, 17, 3)) ELSE Pred(Pick(s, 13, 3) # 0)) ELSE ConsAtom(s, cx)   \* &{..} or a state change !{..}
    [] k = 17 -> IF cx.capnull /\ Pick(s, 15, 2) = 0
                 THEN SeqE(<<Cap(IF Pick(s, 16, 2) = 0 THEN Opt(ConsAtom(s, cx)) ELSE Star(ConsAtom(s, cx))), Act(0)>>)   \* a capture that may be empty, then an action
                 ELSE SeqE(<<ConsAtom(s, cx), Ref(RuleName(1 + Pick(s, 14, cx.n)))>>)   \* guarded (possibly recursive) call
    [] k \in 18..19 -> IF cx.self < cx.n THEN Ref(RuleName(cx.n)) ELSE ConsAtom(s, cx)

RECURSIVE GenE(_, _, _)
GenE(s, d, cx) ==
  IF d = 0 THEN Atom(s, cx)
  ELSE LET k == Pick(s, 21, 30)
           sub(j) == GenE(H(s, 100 + j), d - 1, cx)
       IN CASE k \in 0..4 -> Atom(s, cx)
            [] k \in 5..8 -> SeqE(<<sub(1), sub(2)>>)
            [] k = 9 -> SeqE(<<sub(1), sub(2), sub(3)>>)
            [] k \in 10..12 -> AltE(<<sub(1), sub(2)>>)
            [] k \in 13..16 -> AltE(<<sub(1), sub(2), sub(3)>>)
            [] k = 17 -> AltE(<<sub(1), sub(2), sub(3), sub(4)>>)
            [] k \in 18..19 -> Opt(sub(1))
            [] k \in 20..21 -> Star(sub(1))
            [] k \in 22..23 -> Plus(sub(1))
            [] k = 24 -> And(sub(1))
            [] k \in 25..26 -> Not(sub(1))
            [] k \in 27..28 -> IF cx.caps THEN Cap(sub(1)) ELSE sub(1)
            [] k = 29 -> IF cx.acts THEN SeqE(<<sub(1), Act(0)>>) ELSE sub(1)

(* keep only rules reachable from the first one, in definition order *)
Prune(G) ==
  LET B == BodyMap(G)
      R == Closure([r \in DOMAIN B |-> Refs(B[r]) \cap DOMAIN B], {G.rules[1].name})
  IN [rules |-> SelectSeq(G.rules, LAMBDA r : r.name \in R)]

\* a run of captures, some of which may match the empty string, each followed by an action
CapItem(s, cx) ==
  LET a == ConsAtom(H(s, 1), [cx EXCEPT !.sugar = FALSE]) k == Pick(s, 2, 5) IN
  SeqE(<<Cap(CASE k = 0 -> Plus(a) [] k = 1 -> Star(a) [] k = 2 -> Opt(a) [] k = 3 -> a [] k = 4 -> SeqE(<<a, Opt(a)>>)), Act(0)>> \o
       (IF Pick(s, 3, 3) = 0 THEN <<ConsAtom(H(s, 4), cx)>> ELSE <<>>))
CapSeq(s, cx) == LET n == 2 + Pick(s, 5, 3) IN SeqE([j \in 1..n |-> CapItem(H(s, 10 + j), cx)])

GenGrammar(s, cx0, depth) ==
  IF FAMILY = "reuse" /\ Pick(s, 37, 2) = 0
  THEN NumberActions(Prune([rules |-> <<[name |-> "A", body |-> SeqE(<<Star(AltE(<<Ref("B"), Dot>>)), Not(Dot)>>)],
                                         [name |-> "B", body |-> GenE(H(s, 38), depth - 1, [cx0 EXCEPT !.self = 2, !.n = 3])],
                                         [name |-> "C", body |-> GenE(H(s, 39), depth - 1, [cx0 EXCEPT !.self = 3, !.n = 3])]>>]))
  ELSE IF cx0.capnull /\ Pick(s, 33, 3) = 0
  THEN NumberActions([rules |-> <<[name |-> "A", body |-> IF Pick(s, 34, 2) = 0 THEN CapSeq(s, cx0) ELSE AltE(<<CapSeq(H(s, 35), cx0), CapSeq(H(s, 36), cx0)>>)]>>])
  ELSE
  LET n == 1 + Pick(s, 31, cx0.maxrules)
      rules == [i \in 1..n |-> [name |-> RuleName(i),
                                body |-> GenE(H(s, 40 + i), IF i = 1 THEN depth ELSE depth - 1 + Pick(s, 50 + i, 2),
                                              [cx0 EXCEPT !.self = i, !.n = n])]]
  IN NumberActions(Prune([rules |-> rules]))

(* ---------- the "switch" shape: a choice of >= 3 alternatives that all consume ---------- *)
\* a nested choice of three alternatives with pairwise different first characters whose
\* alternatives record tokens (captures, actions): itself rewritten into a switch
Disj3(s, cx) ==
  LET o == Pick(s, 50, Len(cx.alpha))
      ch(i) == cx.alpha[1 + ((o + i) % Len(cx.alpha))]
      item(i) == LET k == Pick(s, 51 + i, 4) IN
                 CASE k = 0 -> Cap(Chr(ch(i))) [] k = 1 -> SeqE(<<Chr(ch(i)), Act(0)>>)
                   [] k = 2 -> SeqE(<<Cap(Chr(ch(i))), Act(0)>>) [] k = 3 -> SeqE(<<Chr(ch(i)), Cap(Opt(Chr(ch(i + 1))))>>)
  IN AltE(<<item(1), item(2), item(3)>>)
FirstForm(s, cx) ==
  IF Pick(s, 59, 6) = 0 THEN
    (LET k == Pick(s, 58, 4) d == Disj3(s, cx) IN
     CASE k = 0 -> d
       [] k = 1 -> SeqE(<<And(d), Dot>>)
       [] k = 2 -> SeqE(<<Not(SeqE(<<d, Chr(cx.alpha[1])>>)), Dot>>)
       [] k = 3 -> SeqE(<<d, Opt(d)>>))
  ELSE
  LET k == Pick(s, 60, 20)
      a == ConsAtom(H(s, 61), cx)
      b == ConsAtom(H(s, 62), cx)
      c == ConsAtom(H(s, 63), cx)
  IN CASE k \in 0..4 -> a
       [] k = 5 -> AltE(<<SeqE(<<a, b>>), c>>)
       [] k = 6 -> AltE(<<a, SeqE(<<b, c>>)>>)
       [] k = 7 -> SeqE(<<And(a), b>>)
       [] k = 8 -> SeqE(<<Not(a), b>>)
       [] k = 9 -> SeqE(<<Opt(a), b>>)
       [] k = 10 -> SeqE(<<Star(a), b>>)
       [] k = 11 -> Plus(a)
       [] k = 12 -> Cap(a)
       [] k = 13 -> Ref("B")
       [] k = 14 -> Ref("C")
       [] k = 15 -> SeqE(<<Opt(SeqE(<<a, b>>)), c>>)
       [] k = 16 -> SeqE(<<Star(SeqE(<<a, Opt(b)>>)), c>>)
       [] k = 17 -> AltE(<<a, b, c>>)
       \* a guard that looks further ahead than one character: it also holds on a character its operand starts with
       [] k = 18 -> SeqE(<<Not(Str(<<cx.alpha[1 + Pick(s, 64, Len(cx.alpha))], cx.alpha[1 + Pick(s, 65, Len(cx.alpha))]>>, FALSE)), Dot>>)
       [] k = 19 -> SeqE(<<And(SeqE(<<a, b>>)), Dot>>)
SwitchAlt(s, cx) ==
  LET f == IF cx.self = 5 THEN Ref(IF Pick(s, 68, 2) = 0 THEN "A" ELSE "B") ELSE FirstForm(s, cx)
      k == IF cx.self = 5 THEN 2 + 3 * Pick(s, 64, 2) ELSE IF cx.self = 2 /\ Pick(s, 69, 2) = 0 THEN 6 ELSE Pick(s, 64, 8)
  IN CASE k \in 0..1 -> f
       [] k = 2 -> SeqE(<<f, ConsAtom(H(s, 65), cx)>>)
       [] k = 3 -> SeqE(<<f, Opt(ConsAtom(H(s, 65), cx))>>)
       [] k = 4 -> SeqE(<<f, Act(0)>>)
       [] k = 5 -> SeqE(<<f, ConsAtom(H(s, 65), cx), ConsAtom(H(s, 66), cx)>>)
       [] k \in 6..7 -> IF cx.self \in {2, 3} THEN SeqE(<<f, Ref("D"), Opt(ConsAtom(H(s, 65), cx))>>) ELSE SeqE(<<f, ConsAtom(H(s, 65), cx)>>)
SwitchAltOld(s, cx) ==
  LET f == FirstForm(s, cx)
      k == Pick(s, 64, 6)
  IN CASE k \in 0..1 -> f
       [] k = 2 -> SeqE(<<f, ConsAtom(H(s, 65), cx)>>)
       [] k = 3 -> SeqE(<<f, Opt(ConsAtom(H(s, 65), cx))>>)
       [] k = 4 -> SeqE(<<f, Act(0)>>)
       [] k = 5 -> SeqE(<<f, ConsAtom(H(s, 65), cx), ConsAtom(H(s, 66), cx)>>)
\* recursion through a choice that is first reached after input was consumed: A <- B .. ; B <- 'x' D .. ;
\* D <- A 'y' .. / 'p' .. / [q-r] .. with x outside the other first sets (so the choice of D is legitimately
\* rewritten, and its first alternative starts with a rule whose analysis is still in progress)
RecSkeleton(s, cx) ==
  LET a == cx.alpha
      x == a[1 + Pick(s, 1, 2)]                          \* one of the first two letters
      p == a[3 + Pick(s, 2, 2)]                          \* one of the next two
      q == a[5] r == a[Len(a)]
      y == a[1 + Pick(s, 3, Len(a))]
      tail(k) == IF Pick(s, 10 + k, 3) = 0 THEN <<Opt(ConsAtom(H(s, 20 + k), cx))>> ELSE IF Pick(s, 10 + k, 3) = 1 THEN <<Act(0)>> ELSE <<>>
      dAlts == <<SeqE(<<Ref(IF Pick(s, 4, 2) = 0 THEN "A" ELSE "B"), Chr(y)>> \o tail(1)),
                 SeqE(<<Chr(p)>> \o tail(2)), SeqE(<<Rng(q, r)>> \o tail(3))>> \o
               (IF Pick(s, 5, 2) = 0 THEN <<SeqE(<<Cap(Chr(a[7 - 2 * Pick(s, 6, 2) - 3])), Chr(y)>>)>> ELSE <<>>)
      rules == << [name |-> "A", body |-> SeqE(<<Ref("B")>> \o tail(4) \o (IF Pick(s, 7, 2) = 0 THEN <<Not(Dot)>> ELSE <<>>))],
                  [name |-> "B", body |-> SeqE(<<Chr(x), Ref("D")>> \o tail(5))],
                  [name |-> "D", body |-> AltE(dAlts)] >>
  IN NumberActions([rules |-> rules])

\* mutual recursion in which a rule (X) is first analysed while the rule it starts with (A) is still in
\* progress, and is itself in progress when a choice that starts with it (in Z) is analysed:
\*    A <- x X .. / b ;  X <- A k Z .. ;  Z <- [p-q] .. / X m .. / r ..      (alternatives of Z in any order)
\* First(X) = {x, b}; an analysis that answers for X with what an earlier, incomplete pass saw ({k}) selects the
\* alternative "X m" by the wrong character
RecSkeleton2(s, cx) ==
  LET a == cx.alpha
      sw == Pick(s, 1, 2)
      x == a[1 + sw] b == a[2 - sw] k == a[3]
      m == a[1 + Pick(s, 2, Len(a))]
      tail(j) == IF Pick(s, 10 + j, 3) = 0 THEN <<Act(0)>> ELSE <<>>
      wrap(e, j) == IF Pick(s, 20 + j, 3) = 0 THEN Cap(e) ELSE e
      zAlts == <<SeqE(<<wrap(Rng(a[4], a[5]), 1)>> \o tail(1)), SeqE(<<Ref("X"), Chr(m)>> \o tail(2)), SeqE(<<wrap(Chr(a[6]), 3)>> \o tail(3))>>
      perm == <<<<1, 2, 3>>, <<1, 3, 2>>, <<2, 1, 3>>, <<2, 3, 1>>, <<3, 1, 2>>, <<3, 2, 1>>>>[1 + Pick(s, 3, 6)]
      rules == << [name |-> "A", body |-> AltE(<<SeqE(<<Chr(x), Ref("X")>> \o tail(4)), wrap(Chr(b), 5)>>)],
                  [name |-> "X", body |-> SeqE(<<Ref("A"), Chr(k), Ref("Z")>> \o tail(6))],
                  [name |-> "Z", body |-> AltE([j \in 1..3 |-> zAlts[perm[j]]])] >>
  IN NumberActions([rules |-> rules])

\* delimiters of two characters and a guarded "anything else":  A <- (p1 / p2 / !(p1 / p2) .)+ !.
\* the guard also holds on a first character of a delimiter that is not followed by its second character
GuardSkeleton(s, cx) ==
  LET a == cx.alpha
      o == Pick(s, 1, Len(a))
      c(i) == a[1 + ((o + i) % Len(a))]
      d(i) == a[1 + Pick(s, 1 + i, Len(a))]
      p(i) == IF Pick(s, 10 + i, 2) = 0 THEN Str(<<c(i), d(i)>>, FALSE) ELSE SeqE(<<Chr(c(i)), Cap(Chr(d(i)))>>)
      np == 2 + Pick(s, 5, 2)
      ps == [i \in 1..np |-> p(i)]
      viaRule == Pick(s, 6, 2) = 0
      guard == SeqE(<<Not(IF viaRule THEN Ref("D") ELSE AltE(ps)), IF Pick(s, 7, 2) = 0 THEN Dot ELSE Cap(Dot)>>)
      alts == IF Pick(s, 8, 2) = 0 THEN Append(ps, guard) ELSE <<guard>> \o ps
      body == IF Pick(s, 9, 2) = 0 THEN SeqE(<<Plus(AltE(alts)), Not(Dot)>>) ELSE AltE(alts)
      rules == <<[name |-> "A", body |-> body]>> \o (IF viaRule THEN <<[name |-> "D", body |-> AltE(ps)]>> ELSE <<>>)
  IN NumberActions([rules |-> rules])

GenSwitch(s, cx) ==
  IF Pick(s, 98, 4) = 0 THEN RecSkeleton(H(s, 97), cx) ELSE
  IF Pick(s, 98, 4) = 1 /\ Pick(s, 96, 2) = 0 THEN RecSkeleton2(H(s, 95), cx) ELSE
  IF Pick(s, 98, 4) = 1 /\ Pick(s, 96, 2) = 1 /\ Pick(s, 94, 2) = 0 THEN GuardSkeleton(H(s, 93), cx) ELSE
  LET n == 3 + Pick(s, 70, 3)
      alt == AltE([i \in 1..n |-> SwitchAlt(H(s, 71 + i), cx)])
      k == Pick(s, 80, 6)
      body == CASE k \in 0..1 -> alt
                [] k = 2 -> SeqE(<<alt, Not(Dot)>>)
                [] k = 3 -> Star(alt)
                [] k = 4 -> SeqE(<<Plus(alt), Not(Dot)>>)
                [] k = 5 -> SeqE(<<ConsAtom(H(s, 81), cx), alt>>)
      rules == << [name |-> "A", body |-> body],
                  [name |-> "B", body |-> SwitchAlt(H(s, 90), [cx EXCEPT !.n = 1, !.self = 2])],
                  [name |-> "C", body |-> AltE(<<SwitchAlt(H(s, 91), [cx EXCEPT !.n = 1, !.self = 3]), SwitchAlt(H(s, 92), [cx EXCEPT !.n = 1, !.self = 3])>>)],
                  \* D is only reached after B or C consumed something, so its alternatives may begin with A or B again
                  \* one distinguished alternative of D starts with the rule that is still being analysed
                  [name |-> "D", body |-> LET nd == 3 + Pick(s, 93, 2) rec == 1 + Pick(s, 99, nd) IN
                                          AltE([i \in 1..nd |-> SwitchAlt(H(s, 94 + i), [cx EXCEPT !.n = 1, !.self = IF i = rec THEN 5 ELSE 4])])] >>
  IN NumberActions(Prune([rules |-> rules]))

(* ---------- the "lex" shape: literals and classes whose spelling matters ------------------- *)
\* Grammars made of multi-character literals and classes over quotes, digits, '-', ']', '\', a newline and
\* non-ASCII characters, rendered with the escape styles of the syntax family (named, octal, short octal, hex):
\* what the front end makes of the spelling is observed end to end, as the language of the generated parser.
LexAlpha == <<97, 55, 52, 48, 39, 34, 45, 93, 92, 10, 233, 319, 1114111>>
LexAtom(s, cx) ==
  LET a == cx.alpha
      ch(j) == a[1 + Pick(s, 10 + j, Len(a))]
      k == Pick(s, 1, 9)
      item(j) == IF Pick(s, 30 + j, 2) = 0 THEN Single(ch(j))
                 ELSE LET x == ch(j) y == ch(j + 4) IN Item(IF x <= y THEN x ELSE y, IF x <= y THEN y ELSE x)
  IN CASE k \in 0..3 -> Str([j \in 1..(2 + Pick(s, 2, 3)) |-> ch(j)], FALSE)
       [] k = 4 -> Chr(ch(1))
       [] k \in 5..6 -> Cls([j \in 1..(1 + Pick(s, 3, 3)) |-> item(j)], Pick(s, 4, 3) = 0, FALSE)
       \* a character that must be escaped inside its quotes, directly followed by a digit
       [] k \in 7..8 -> Str(<<<<39, 34, 92, 45, 10>>[1 + Pick(s, 5, 5)], <<55, 52, 48>>[1 + Pick(s, 6, 3)]>> \o
                            (IF Pick(s, 7, 2) = 0 THEN <<ch(1)>> ELSE <<>>), FALSE)
GenLex(s, cx) ==
  LET nalt == 1 + Pick(s, 60, 3)
      seq(i) == LET t == H(s, 61 + i)
                    x == LexAtom(H(t, 1), cx) y == LexAtom(H(t, 2), cx)
                    xs == IF Pick(t, 3, 2) = 0 THEN <<x>> ELSE <<x, y>>
                IN IF Pick(t, 4, 3) = 0 THEN Cap(SeqE(xs)) ELSE SeqE(xs)
      body == AltE([i \in 1..nalt |-> seq(i)])
  IN NumberActions([rules |-> <<[name |-> "A", body |-> IF Pick(s, 70, 2) = 0 THEN SeqE(<<body, Not(Dot)>>) ELSE body]>>])
LexStyleOf(n) == <<1, 2, 3, 4, 14, 14, 5, 12>>[1 + (n % 8)]

(* ---------- the "memo" shape: rules re-entered at the same offset after backtracking -------- *)
\* leaf rules L1..L3 consume one character (and may carry a capture / action); X, Y, Z are built
\* from leaves (X, Z: several tokens; Y: fewer tokens over the same text); A tries sequences that
\* share prefixes and differ late, so X/Y/Z are revisited through the memo table after other
\* branches have overwritten the token buffer.
MemoLeaf(s, cx) ==
  LET a == ConsAtom(H(s, 1), [cx EXCEPT !.sugar = FALSE]) k == Pick(s, 2, 4) IN
  CASE k = 0 -> a [] k = 1 -> Cap(a) [] k = 2 -> SeqE(<<Cap(a), Act(0)>>) [] k = 3 -> SeqE(<<a, Act(0)>>)
MemoMid(s, cx, deep) ==
  LET l(i) == Ref(<<"L", "M", "N">>[1 + Pick(s, 10 + i, 3)])
      k == Pick(s, 3, 5)
  IN IF deep
     THEN CASE k \in 0..1 -> SeqE(<<l(1), l(2)>>) [] k = 2 -> SeqE(<<l(1), Opt(l(2))>>) [] k = 3 -> SeqE(<<l(1), l(2), l(3)>>)
            [] k = 4 -> Cap(SeqE(<<l(1), l(2)>>))
     ELSE CASE k \in 0..1 -> SeqE(<<ConsAtom(H(s, 4), cx), ConsAtom(H(s, 5), cx)>>) [] k = 2 -> SeqE(<<l(1), ConsAtom(H(s, 5), cx)>>)
            [] k = 3 -> SeqE(<<ConsAtom(H(s, 4), cx), Opt(ConsAtom(H(s, 5), cx))>>) [] k = 4 -> Plus(ConsAtom(H(s, 4), cx))
MemoItem(s, cx) ==
  LET r(i) == Ref(<<"X", "Y", "Z">>[1 + Pick(s, 20 + i, 3)])
      k == Pick(s, 6, 10)
  IN CASE k \in 0..4 -> r(1)
       [] k = 5 -> AltE(<<r(1), r(2)>>)
       [] k = 6 -> SeqE(<<And(r(1)), r(2)>>)
       [] k = 7 -> SeqE(<<Not(r(1)), r(2)>>)
       [] k = 8 -> Opt(r(1))
       [] k = 9 -> ConsAtom(H(s, 7), cx)
MemoSeq(s, cx, i) ==
  LET n == 1 + Pick(s, 30, 3)
      tail == <<Chr(cx.alpha[1 + ((i + Pick(s, 31, 2)) % Len(cx.alpha))])>> \o (IF Pick(s, 32, 2) = 0 THEN <<Not(Dot)>> ELSE <<>>)
  IN SeqE([j \in 1..n |-> MemoItem(H(s, 40 + j), cx)] \o tail)
GenMemo(s, cx) ==
  LET n == 2 + Pick(s, 50, 3)
      rules == << [name |-> "A", body |-> AltE([i \in 1..n |-> MemoSeq(H(s, 51 + i), cx, i)])],
                  [name |-> "X", body |-> MemoMid(H(s, 60), cx, TRUE)],
                  [name |-> "Y", body |-> MemoMid(H(s, 61), cx, FALSE)],
                  [name |-> "Z", body |-> MemoMid(H(s, 62), cx, TRUE)],
                  [name |-> "L", body |-> MemoLeaf(H(s, 63), cx)],
                  [name |-> "M", body |-> MemoLeaf(H(s, 64), cx)],
                  [name |-> "N", body |-> MemoLeaf(H(s, 65), cx)] >>
  IN NumberActions(Prune([rules |-> rules]))

(* ---------- the "diag" family: grammars that need not be well formed ------------------------ *)
DiagAtom(s, cx) ==
  LET k == Pick(s, 11, 12) IN
  CASE k \in 0..4 -> ConsAtom(s, cx)
    [] k \in 5..8 -> Ref(RuleName(1 + Pick(s, 12, cx.n)))                 \* any rule, also itself and earlier ones
    [] k = 9 -> Ref(<<"U", "V">>[1 + Pick(s, 13, 2)])                     \* a name without definition
    [] k = 10 -> Nil
    [] k = 11 -> Pred(TRUE)
RECURSIVE DiagE(_, _, _)
DiagE(s, d, cx) ==
  IF d = 0 THEN DiagAtom(s, cx)
  ELSE LET k == Pick(s, 21, 20) sub(j) == DiagE(H(s, 100 + j), d - 1, cx) IN
       CASE k \in 0..3 -> DiagAtom(s, cx)
         [] k \in 4..7 -> SeqE(<<sub(1), sub(2)>>)
         [] k \in 8..10 -> AltE(<<sub(1), sub(2)>>)
         [] k = 11 -> AltE(<<sub(1), sub(2), sub(3)>>)
         [] k = 12 -> Opt(sub(1)) [] k = 13 -> Star(sub(1)) [] k = 14 -> Plus(sub(1))
         [] k = 15 -> And(sub(1)) [] k = 16 -> Not(sub(1)) [] k = 17 -> Cap(sub(1))
         [] k = 18 -> SeqE(<<sub(1), sub(2), sub(3)>>)
         \* a choice whose verdict "consumes" depends on all alternatives, in front of a rule reference
         [] k = 19 -> LET nul == CASE Pick(s, 22, 3) = 0 -> Opt(sub(1)) [] Pick(s, 22, 3) = 1 -> Star(ConsAtom(H(s, 23), cx)) [] OTHER -> sub(1)
                          alt == IF Pick(s, 24, 2) = 0 THEN AltE(<<nul, ConsAtom(H(s, 25), cx)>>) ELSE AltE(<<ConsAtom(H(s, 25), cx), nul>>)
                      IN SeqE(<<alt, Ref(RuleName(1 + Pick(s, 26, cx.n)))>>)
\* rule names other than A..F: names that look like the generator's own (the pseudo-rules of actions are called
\* Action0, Action1, ...; the capture token PegText) must be treated like any other name
OddNames == [A |-> "Action", B |-> "ActionList", C |-> "Actions", D |-> "Reaction", E |-> "PegTexts", F |-> "Rules"]
RECURSIVE RenameE(_, _)
RenameE(e, f) ==
  CASE e.op = "ref" -> IF e.r \in DOMAIN f THEN [e EXCEPT !.r = f[e.r]] ELSE e
    [] e.op \in UnaryOps -> [e EXCEPT !.a = RenameE(e.a, f)]
    [] e.op \in ListOps -> [e EXCEPT !.es = [k \in 1..Len(e.es) |-> RenameE(e.es[k], f)]]
    [] OTHER -> e
RenameG(G, f) == [rules |-> [i \in 1..Len(G.rules) |-> [name |-> IF G.rules[i].name \in DOMAIN f THEN f[G.rules[i].name] ELSE G.rules[i].name,
                                                          body |-> RenameE(G.rules[i].body, f)]]]
GenDiag(s, cx0) ==
  LET n == 1 + Pick(s, 31, 5)
      dup == Pick(s, 32, 6) = 0 /\ n >= 3     \* the last rule repeats the name of the second
      rules == [i \in 1..n |-> [name |-> IF dup /\ i = n THEN RuleName(2) ELSE RuleName(i),
                                body |-> DiagE(H(s, 40 + i), 1 + Pick(s, 50 + i, 2), [cx0 EXCEPT !.self = i, !.n = n])]]
      G == [rules |-> rules]
  IN IF Pick(s, 33, 4) = 0 THEN RenameG(G, OddNames) ELSE G

(* ---------- the "stress" family: code generation only (C08), every option set ------------- *)
Num(i) == ToString(i)
\* n rules R1..Rn chained: R_i <- 'a' R_{i+1} / [b-c] R_{i+1}? / 'd'  (every rule used twice, so none is inlined)
ChainRule(i, n, withAct) ==
  [name |-> "R" \o Num(i),
   body |-> IF i = n THEN AltE(<<Chr(100), Dot>>)
            ELSE AltE(<<SeqE(<<Chr(97), Ref("R" \o Num(i + 1))>> \o (IF withAct THEN <<Act(0)>> ELSE <<>>)),
                        SeqE(<<Rng(98, 99), Opt(Ref("R" \o Num(i + 1)))>>), Chr(100)>>)]
ChainGrammar(n, withAct) == NumberActions([rules |-> [i \in 1..n |-> ChainRule(i, n, withAct)]])

StressShapes == 15
StressNames == <<"rules300", "rules1000", "rules3000", "import1", "importalias", "importgroup", "importdup", "importdupalias",
                 "headercomments", "oddchars", "predcomments", "acts140", "unusedmiddle", "textnocapture", "predlinecomment">>
SmallG(body) == [rules |-> <<[name |-> "A", body |-> body], [name |-> "B", body |-> AltE(<<Chr(98), SeqE(<<Chr(99), Ref("B")>>)>>)]>>]
UseB == SeqE(<<Ref("B"), Opt(Ref("B"))>>)
StressText(k) ==
  LET st == DefaultStyle
      NL == "\n"
      imp(t) == t \o NL \o NL
  IN
  CASE k = 1 -> Render(ChainGrammar(300, FALSE), st)
    [] k = 2 -> Render(ChainGrammar(1000, FALSE), st)
    [] k = 3 -> Render(ChainGrammar(3000, FALSE), st)
    [] k = 4 -> RenderWith(SmallG(SeqE(<<UseB, RawAct(" _ = strings.ToUpper(text) ")>>)), st, "", imp("import \"strings\""))
    [] k = 5 -> RenderWith(SmallG(SeqE(<<UseB, RawAct(" _ = str.Itoa(len(text)) ")>>)), st, "", imp("import str \"strconv\""))
    [] k = 6 -> RenderWith(SmallG(SeqE(<<UseB, RawAct(" _ = strings.ToUpper(text); _ = u.QueryEscape(text) ")>>)), st, "",
                           imp("import (" \o NL \o " \"strings\"" \o NL \o " u \"net/url\"" \o NL \o ")"))
    [] k = 7 -> RenderWith(SmallG(SeqE(<<UseB, RawAct(" _ = fmt.Sprint(text); _ = os.Args ")>>)), st, "",
                           imp("import \"fmt\"" \o NL \o "import \"os\""))
    [] k = 8 -> RenderWith(SmallG(SeqE(<<UseB, RawAct(" _ = f.Sprint(text); _ = sc.Itoa(1) ")>>)), st, "",
                           imp("import f \"fmt\"" \o NL \o "import sc \"strconv\""))
    [] k = 9 -> RenderWith(SmallG(UseB), st, "# a leading comment" \o NL \o "// another one, Go style" \o NL \o NL \o "#third" \o NL, "")
    [] k = 10 -> Render(SmallG(SeqE(<<Chr(39), Chr(34), Chr(92), Chr(0), Chr(7), Chr(27), Chr(127), Chr(233), Chr(27721), Chr(128512), Chr(1114111),
                                      Cls(<<Item(0, 31), Single(93), Single(45), Single(94), Single(92), Item(127, 255), Item(65536, 1114111)>>, FALSE, FALSE),
                                      Cls(<<Single(39), Single(34), Single(96)>>, TRUE, FALSE), Str(<<96, 36, 123, 125>>, FALSE), UseB>>)), st)
    [] k = 15 -> Render(SmallG(SeqE(<<RawPred(" true // trailing" \o NL \o " "), UseB>>)), st)
    [] k = 11 -> Render(SmallG(SeqE(<<RawPred(" /* a comment */ true "), RawPred(" func() bool { return len(\"*/\") == 2 }() "),
                                      UseB, RawAct(" if true { _ = \"{}\" } /* { } */ ")>>)), st)
    [] k = 12 -> Render(ChainGrammar(140, TRUE), [st EXCEPT !.act = "none"])
    [] k = 13 -> Render([rules |-> <<[name |-> "A", body |-> SeqE(<<Ref("C"), Star(Ref("C"))>>)],
                                    [name |-> "Dead", body |-> SeqE(<<Chr(120), Plus(Chr(121))>>)],
                                    [name |-> "C", body |-> AltE(<<SeqE(<<Plus(Rng(97, 99)), Star(Chr(100))>>), SeqE(<<Chr(101), Opt(Ref("C"))>>)>>)],
                                    [name |-> "D2", body |-> Chr(122)]>>], st)
    [] k = 14 -> Render(SmallG(SeqE(<<UseB, RawAct(" _ = text ")>>)), st)
StressScenario(n) ==
  [id |-> n, family |-> "stress", seed |-> SEED, grammar |-> [rules |-> <<>>], text |-> StressText(n), shape |-> StressNames[n],
   optsets |-> All8, inputs |-> <<>>, plan |-> <<>>, hist |-> <<>>,
   collect |-> [toks |-> FALSE, exec |-> FALSE, ast |-> FALSE, msg |-> FALSE, evs |-> FALSE],
   allu |-> FALSE, norun |-> TRUE, actstyle |-> "full", nowarn |-> n # 13]

(* ---------- the "syntax" family (C10): one grammar under every documented spelling ---------- *)
NSTYLES == 14
SyntaxStyle(k) ==
  CASE k = 1 -> DefaultStyle
    [] k = 2 -> [DefaultStyle EXCEPT !.raw = FALSE, !.esc = "octal"]
    [] k = 3 -> [DefaultStyle EXCEPT !.raw = FALSE, !.esc = "hex"]
    [] k = 4 -> [DefaultStyle EXCEPT !.raw = FALSE, !.esc = "HEX"]
    [] k = 5 -> [DefaultStyle EXCEPT !.paren = "min"]
    [] k = 6 -> [DefaultStyle EXCEPT !.arrow = "←"]
    [] k = 7 -> [DefaultStyle EXCEPT !.comment = " # a comment ' \" [ <- "]
    [] k = 8 -> [DefaultStyle EXCEPT !.comment = " // a comment / 'x' "]
    [] k = 9 -> [DefaultStyle EXCEPT !.trailnil = TRUE, !.paren = "min"]
    [] k = 10 -> [DefaultStyle EXCEPT !.nl = "\r\n", !.comment = " # crlf"]
    [] k = 11 -> [DefaultStyle EXCEPT !.nl = "\r", !.comment = " # cr only"]
    [] k = 12 -> [DefaultStyle EXCEPT !.sp = " ", !.paren = "min"]
    [] k = 13 -> DefaultStyle
    [] k = 14 -> [DefaultStyle EXCEPT !.esc = "octshort"]     \* \d and \dd escapes, raw digits after them where that is unambiguous
SyntaxImports(k) == IF k # 13 THEN <<>> ELSE <<[path |-> "strings", alias |-> ""], [path |-> "fmt", alias |-> "f"], [path |-> "net/url", alias |-> "u"], [path |-> "strconv", alias |-> "sc"]>>
ImportText(imps, nl) ==
  IF imps = <<>> THEN ""
  ELSE "import " \o "\"" \o imps[1].path \o "\"" \o nl \o
       "import (" \o nl \o " " \o imps[2].alias \o " \"" \o imps[2].path \o "\"" \o nl \o " " \o imps[3].alias \o " \"" \o imps[3].path \o "\"" \o nl \o ")" \o nl \o
       "import " \o imps[4].alias \o " \"" \o imps[4].path \o "\"" \o nl \o nl
SyntaxCx == [alpha |-> <<97, 98, 99, 65, 90, 48, 55, 52, 45, 93, 91, 39, 34, 92, 10, 9, 32, 94, 127, 200, 255, 233, 27721, 128512, 1114111>>,
             acts |-> TRUE, caps |-> TRUE, preds |-> TRUE, sugar |-> TRUE, capnull |-> FALSE, maxrules |-> 3, self |-> 1, n |-> 1]
SyntaxGrammar(g) == LET s == H(H(SEED, g), g \div 1499) n == 1 + Pick(s, 31, 3)
                        rules == [i \in 1..n |-> [name |-> RuleName(i), body |-> GenE(H(s, 40 + i), 2 + Pick(s, 50 + i, 2), [SyntaxCx EXCEPT !.self = i, !.n = n])]]
                    IN NumberActions([rules |-> rules])
SyntaxScenario(n) ==
  LET g == ((n - 1) \div NSTYLES) + 1 k == ((n - 1) % NSTYLES) + 1
      G == SyntaxGrammar(g) st == SyntaxStyle(k) imps == SyntaxImports(k)
  IN [id |-> n, family |-> "syntax", seed |-> SEED, grammar |-> G, style |-> k, imports |-> imps,
      text |-> RenderWith(G, st, IF k = 7 THEN "# leading" \o st.nl ELSE "", ImportText(imps, st.nl))]

(* ---------- interleavings of two instances (C14) ------------------------------------------ *)
\* each instance takes five steps (Init, Buffer+Reset, Parse, Execute, observe); an order is a sequence over {1, 2}
\* with five of each; all C(10,5) = 252 orders are behaviours of PegRuntime!Next for two instances.
RECURSIVE Merges(_, _)
Merges(a, b) ==
  IF a = 0 THEN {[j \in 1..b |-> 2]}
  ELSE IF b = 0 THEN {[j \in 1..a |-> 1]}
  ELSE {<<1>> \o m : m \in Merges(a - 1, b)} \cup {<<2>> \o m : m \in Merges(a, b - 1)}
AllOrders == Merges(5, 5)
RECURSIVE EnumSet(_, _)
EnumSet(S, acc) == IF S = {} THEN acc ELSE LET x == CHOOSE x \in S : TRUE IN EnumSet(S \ {x}, Append(acc, x))
OrderSeq == EnumSet(AllOrders, <<>>)
\* "twice": a second Parse without Reset between Parse and Execute (PegRuntime!ParseAgain): six steps per instance
OrderSeq6 == EnumSet(Merges(6, 6), <<>>)
Inters(s, ninputs) ==
  IF FAMILY # "inst" THEN <<>>
  ELSE [k \in 1..12 |->
         [a |-> 1 + Pick(s, 950 + k, ninputs), b |-> 1 + Pick(s, 970 + k, ninputs), size |-> <<0, 4, 64>>[1 + Pick(s, 990 + k, 3)],
          twice |-> k > 8,
          order |-> IF k = 1 THEN <<1, 2, 1, 2, 1, 2, 1, 2, 1, 2>>            \* init0 init1 buffer0 buffer1 parse0 parse1 ...
                    ELSE IF k = 2 THEN <<1, 2, 1, 1, 2, 2, 1, 1, 2, 2>>
                    ELSE IF k = 9 THEN <<1, 1, 1, 2, 2, 2, 1, 2, 1, 2, 1, 2>>   \* A parses, B is set up and parses, A parses again
                    ELSE IF k = 10 THEN <<1, 2, 1, 1, 2, 2, 1, 2, 2, 1, 1, 2>>
                    ELSE IF k > 8 THEN OrderSeq6[1 + Pick(s, 930 + k, Len(OrderSeq6))]
                    ELSE OrderSeq[1 + Pick(s, 930 + k, Len(OrderSeq))]]]

(* ---------- inputs ------------------------------------------------------- *)
RECURSIVE AllStrings(_, _)
AllStrings(alpha, n) ==
  IF n = 0 THEN {<<>>}
  ELSE LET S == AllStrings(alpha, n - 1) IN
       S \cup {Append(w, alpha[k]) : w \in {x \in S : Len(x) = n - 1}, k \in 1..Len(alpha)}

RndString(s, alpha, len) == [j \in 1..len |-> alpha[1 + Pick(s, 200 + j, Len(alpha))]]

SetToSeq(S) == LET f == CHOOSE f \in [1..Cardinality(S) -> S] : \A i, j \in 1..Cardinality(S) : i # j => f[i] # f[j] IN f

\* deterministic order: by length then lexicographic, via a recursive builder
RECURSIVE StringsOrdered(_, _)
StringsOrdered(alpha, n) ==
  IF n = 0 THEN << <<>> >>
  ELSE LET prev == StringsOrdered(alpha, n - 1)
           last == SelectSeq(prev, LAMBDA w : Len(w) = n - 1)
           ext == [k \in 1..(Len(last) * Len(alpha)) |->
                     Append(last[((k - 1) \div Len(alpha)) + 1], alpha[((k - 1) % Len(alpha)) + 1])]
       IN prev \o ext

\* two fixed grammars whose derivations nest as deep as the input is long (tree and printers beyond 64 levels)
DeepGrammar1 == NumberActions([rules |-> <<[name |-> "A", body |-> AltE(<<SeqE(<<Ref("B"), Ref("A")>>), Ref("B")>>)],
                                           [name |-> "B", body |-> SeqE(<<Cap(Rng(97, 98)), Act(0)>>)]>>])
DeepGrammar2 == NumberActions([rules |-> <<[name |-> "A", body |-> AltE(<<SeqE(<<Chr(40), Ref("A"), Chr(41)>>), Cap(Chr(233))>>)]>>])
\* three fixed grammars of the switch family: each separates one variant of Optimizer.tla that transcribes a defect
\* of the pinned tree from the repaired rules (MC_Optimizer_pinned.cfg, MC_Optimizer_onepass.cfg), whatever the seed
SwitchPinned1 == NumberActions([rules |-> <<[name |-> "A", body |-> AltE(<<SeqE(<<And(Chr(97)), Chr(98)>>), Chr(99), SeqE(<<Chr(100), Act(0)>>)>>)]>>])
SwitchPinned2 == NumberActions([rules |-> <<[name |-> "A", body |-> AltE(<<Chr(97), Cap(Chr(98)), Opt(Chr(99)), Chr(100)>>)]>>])
SwitchPinned3 == NumberActions([rules |-> <<[name |-> "A", body |-> AltE(<<SeqE(<<Chr(97), Ref("X")>>), Chr(98)>>)],
                                            [name |-> "X", body |-> SeqE(<<Ref("A"), Chr(99), Ref("Z")>>)],
                                            [name |-> "Z", body |-> AltE(<<Rng(100, 101), SeqE(<<Ref("X"), Chr(97)>>), Chr(102)>>)]>>])
\* a fixed line-oriented grammar of the reuse family: most inputs fail on a line other than the first, so the
\* histories report line/column positions of one input after another on the same instance
LinesGrammar == NumberActions([rules |-> <<[name |-> "A", body |-> SeqE(<<Plus(Ref("L")), Not(Dot)>>)],
                                           [name |-> "L", body |-> SeqE(<<Cap(Star(Rng(97, 98))), Act(0), Chr(10)>>)]>>])
LinesInputs == << <<97, 10, 98, 10, 100>>, <<10, 10, 100>>, <<97, 98, 10, 97, 100, 10>>, <<100>>, <<97, 10, 98, 98, 10, 97, 97, 100>>,
                  <<98, 10, 10, 10, 100, 10>>, <<97, 10>>, <<97, 100>> >>
\* a fixed grammar of the bytes family whose token stream tells how every rune of the Buffer was decoded
\* (ASCII / Latin-1 / U+FFFD / astral / other): a lone invalid byte must be read as U+FFFD, never as the
\* code point of the same number (seed C13G), whatever else the input holds
ByteClassGrammar == NumberActions([rules |-> <<[name |-> "A", body |-> SeqE(<<Star(AltE(<<Ref("L"), Ref("H"), Ref("R"), Ref("S"), Ref("D")>>)), Not(Dot)>>)],
                                               [name |-> "L", body |-> Rng(0, 127)],
                                               [name |-> "H", body |-> Rng(128, 255)],
                                               [name |-> "R", body |-> Chr(65533)],
                                               [name |-> "S", body |-> Rng(65536, 1114111)],
                                               [name |-> "D", body |-> Dot]>>])
\* a fixed scenario that reproduces known finding F12-2 (more than 65535 tokens under uint16) in every run of the reuse family
F122Grammar == NumberActions([rules |-> <<[name |-> "A", body |-> SeqE(<<Star(AltE(<<Ref("B"), Dot>>)), Not(Dot)>>)],
                                          [name |-> "B", body |-> Ref("C")],
                                          [name |-> "C", body |-> SeqE(<<AltE(<<Chr(99), Dot, Chr(98)>>), Act(0)>>)]>>])

(* ---------- sentences: random derivations of the grammar read as a CFG ------------------- *)
\* (ordered choice and lookahead are ignored; the result is merely a string that is likely to be
\* accepted or to fail late, which is what exercises deep paths of the parser)
RECURSIVE Sentence(_, _, _, _, _), SentenceL(_, _, _, _, _, _)
SentenceL(B, es, i, s, fuel, alpha) ==
  IF i > Len(es) THEN <<>> ELSE Sentence(B, es[i], H(s, i), fuel, alpha) \o SentenceL(B, es, i + 1, s, fuel, alpha)
Sentence(B, e, s, fuel, alpha) ==
  CASE e.op = "chr" -> <<e.c>>
    [] e.op = "dot" -> <<alpha[1 + Pick(s, 1, Len(alpha))]>>
    [] e.op = "rng" -> IF e.lo <= e.hi THEN <<e.lo + Pick(s, 2, e.hi - e.lo + 1)>> ELSE <<>>
    [] e.op = "ref" -> IF fuel = 0 \/ e.r \notin DOMAIN B THEN <<>> ELSE Sentence(B, B[e.r], H(s, 3), fuel - 1, alpha)
    [] e.op = "seq" -> SentenceL(B, e.es, 1, s, fuel, alpha)
    [] e.op = "alt" -> Sentence(B, e.es[1 + Pick(s, 4, Len(e.es))], H(s, 5), fuel, alpha)
    [] e.op = "opt" -> IF Pick(s, 6, 2) = 0 THEN <<>> ELSE Sentence(B, e.a, H(s, 7), fuel, alpha)
    [] e.op = "star" -> IF fuel = 0 THEN <<>> ELSE SentenceL(B, [j \in 1..Pick(s, 8, 3) |-> e.a], 1, H(s, 9), fuel - 1, alpha)
    [] e.op = "plus" -> IF fuel = 0 THEN Sentence(B, e.a, H(s, 9), 0, alpha) ELSE SentenceL(B, [j \in 1..(1 + Pick(s, 8, 2)) |-> e.a], 1, H(s, 9), fuel - 1, alpha)
    [] e.op = "cap" -> Sentence(B, e.a, H(s, 10), fuel, alpha)
    [] OTHER -> <<>>
\* one sentence, possibly with one character replaced or dropped
SentenceInput(B, first, s, alpha) ==
  LET w == Sentence(B, Ref(first), s, 6, alpha)
      k == Pick(s, 20, 4)
      p == 1 + Pick(s, 21, IF Len(w) = 0 THEN 1 ELSE Len(w))
  IN IF Len(w) = 0 \/ k \in 0..1 THEN w
     ELSE IF k = 2 THEN [w EXCEPT ![p] = alpha[1 + Pick(s, 22, Len(alpha))]]
     ELSE SubSeq(w, 1, p - 1) \o SubSeq(w, p + 1, Len(w))
Trunc(w, n) == IF Len(w) > n THEN SubSeq(w, 1, n) ELSE w

(* ---------- families ----------------------------------------------------- *)
ABC == <<97, 98, 99>>

PlanEntry(entry, memo, size, u, skipi) == [entry |-> entry, memo |-> memo, size |-> size, u |-> u, skipi |-> skipi]

\* family parameters
Fam ==
  CASE FAMILY \in {"core", "stress", "syntax"} ->   \* C01 C02 C03 C06: every core operator, sugar, predicates; tokens only
         [cx |-> [alpha |-> ABC, acts |-> TRUE, caps |-> TRUE, preds |-> TRUE, sugar |-> TRUE, capnull |-> FALSE, maxrules |-> 4, self |-> 1, n |-> 1],
          depth |-> 3, optsets |-> Plain4, exhaust |-> 3, alphaIn |-> ABC, extraAlpha |-> <<97, 98, 99, 65, 100>>, nextra |-> 10,
          collect |-> [toks |-> TRUE, exec |-> FALSE, ast |-> FALSE, msg |-> FALSE], entries |-> TRUE, memoOff |-> TRUE, act |-> "full"]
    [] FAMILY = "act" ->    \* C04 C05 C11: actions and captures everywhere; multi-line, multi-byte inputs
         [cx |-> [alpha |-> <<97, 98, 10, 233, 27721, 37>>, acts |-> TRUE, caps |-> TRUE, preds |-> FALSE, sugar |-> FALSE, capnull |-> FALSE, maxrules |-> 3, self |-> 1, n |-> 1],
          depth |-> 3, optsets |-> <<"">>, exhaust |-> 2, alphaIn |-> <<97, 98, 10, 233, 27721>>, extraAlpha |-> <<97, 98, 10, 233, 27721, 128512, 37, 37>>, nextra |-> 30,
          collect |-> [toks |-> TRUE, exec |-> TRUE, ast |-> TRUE, msg |-> TRUE], entries |-> FALSE, memoOff |-> FALSE, act |-> "full"]
    [] FAMILY = "lex" ->    \* C01 C02 C03: the spelling of literals and classes, end to end
         [cx |-> [alpha |-> LexAlpha, acts |-> FALSE, caps |-> TRUE, preds |-> FALSE, sugar |-> TRUE, capnull |-> FALSE, maxrules |-> 1, self |-> 1, n |-> 1],
          depth |-> 2, optsets |-> <<"", "is">>, exhaust |-> 1, alphaIn |-> LexAlpha, extraAlpha |-> LexAlpha, nextra |-> 30,
          collect |-> [toks |-> TRUE, exec |-> FALSE, ast |-> FALSE, msg |-> FALSE], entries |-> FALSE, memoOff |-> FALSE, act |-> "full"]
    [] FAMILY = "switch" -> \* C02 C08: choices of >= 3 consuming alternatives (the shape -switch rewrites)
         [cx |-> [alpha |-> <<97, 98, 99, 100, 101, 102>>, acts |-> TRUE, caps |-> TRUE, preds |-> FALSE, sugar |-> TRUE, capnull |-> FALSE, maxrules |-> 3, self |-> 1, n |-> 1],
          depth |-> 0, optsets |-> Plain4, exhaust |-> 2, alphaIn |-> <<97, 98, 99, 100, 101, 102>>, extraAlpha |-> <<97, 98, 99, 100, 101, 102, 65, 122>>, nextra |-> 40,
          collect |-> [toks |-> TRUE, exec |-> TRUE, ast |-> FALSE, msg |-> FALSE], entries |-> FALSE, memoOff |-> FALSE, act |-> "full"]
    [] FAMILY = "memo" ->   \* C03 C04 C06: memo hits after the token buffer was overwritten by another branch
         [cx |-> [alpha |-> <<97, 98>>, acts |-> TRUE, caps |-> TRUE, preds |-> FALSE, sugar |-> FALSE, capnull |-> FALSE, maxrules |-> 3, self |-> 1, n |-> 1],
          depth |-> 0, optsets |-> <<"">>, exhaust |-> 4, alphaIn |-> <<97, 98>>, extraAlpha |-> <<97, 98, 99>>, nextra |-> 20,
          collect |-> [toks |-> TRUE, exec |-> TRUE, ast |-> FALSE, msg |-> FALSE], entries |-> FALSE, memoOff |-> TRUE, act |-> "full"]
    [] FAMILY = "diag" ->   \* C15: generation only, with and without -strict
         [cx |-> [alpha |-> ABC, acts |-> FALSE, caps |-> TRUE, preds |-> TRUE, sugar |-> FALSE, capnull |-> FALSE, maxrules |-> 5, self |-> 1, n |-> 1],
          depth |-> 2, optsets |-> <<"", "t", "ist">>, exhaust |-> 0, alphaIn |-> ABC, extraAlpha |-> ABC, nextra |-> 0,
          collect |-> [toks |-> FALSE, exec |-> FALSE, ast |-> FALSE, msg |-> FALSE], entries |-> FALSE, memoOff |-> FALSE, act |-> "full"]
    [] FAMILY = "noast" ->  \* C07
         [cx |-> [alpha |-> ABC, acts |-> TRUE, caps |-> TRUE, preds |-> TRUE, sugar |-> FALSE, capnull |-> TRUE, maxrules |-> 3, self |-> 1, n |-> 1],
          depth |-> 3, optsets |-> All8, exhaust |-> 3, alphaIn |-> ABC, extraAlpha |-> <<97, 98, 99, 100, 233, 27721>>, nextra |-> 16,
          collect |-> [toks |-> TRUE, exec |-> FALSE, ast |-> FALSE, msg |-> FALSE], entries |-> FALSE, memoOff |-> FALSE, act |-> "text"]
    [] FAMILY = "reuse" ->  \* C12: histories on one long-lived instance x Size x U
         \* (a, b and the newline: error positions are lines and columns)
         [cx |-> [alpha |-> <<97, 98, 10>>, acts |-> TRUE, caps |-> TRUE, preds |-> FALSE, sugar |-> FALSE, capnull |-> FALSE, maxrules |-> 3, self |-> 1, n |-> 1],
          depth |-> 3, optsets |-> <<"", "is", "n">>, exhaust |-> 2, alphaIn |-> <<97, 98, 10>>, extraAlpha |-> <<97, 98, 10, 100>>, nextra |-> 16,
          collect |-> [toks |-> TRUE, exec |-> TRUE, ast |-> TRUE, msg |-> TRUE], entries |-> FALSE, memoOff |-> FALSE, act |-> "text"]
    [] FAMILY = "inst" ->   \* C14: interleaved and concurrent instances
         [cx |-> [alpha |-> ABC, acts |-> TRUE, caps |-> TRUE, preds |-> FALSE, sugar |-> FALSE, capnull |-> TRUE, maxrules |-> 3, self |-> 1, n |-> 1],
          depth |-> 3, optsets |-> <<"">>, exhaust |-> 2, alphaIn |-> ABC, extraAlpha |-> <<97, 98, 99, 100>>, nextra |-> 6,
          collect |-> [toks |-> TRUE, exec |-> TRUE, ast |-> TRUE, msg |-> FALSE], entries |-> FALSE, memoOff |-> FALSE, act |-> "full"]
    [] FAMILY = "bytes" ->  \* C13: arbitrary Go strings as Buffer
         [cx |-> [alpha |-> <<97, 0, 233, 65533, 128512, 1114111>>, acts |-> FALSE, caps |-> TRUE, preds |-> FALSE, sugar |-> TRUE, capnull |-> FALSE, maxrules |-> 3, self |-> 1, n |-> 1],
          depth |-> 3, optsets |-> <<"", "is">>, exhaust |-> 0, alphaIn |-> <<97>>, extraAlpha |-> <<97>>, nextra |-> 0,
          collect |-> [toks |-> TRUE, exec |-> FALSE, ast |-> TRUE, msg |-> TRUE], entries |-> FALSE, memoOff |-> FALSE, act |-> "full"]

Style(G) == [DefaultStyle EXCEPT !.act = IF Fam.act = "full" THEN "full" ELSE IF HasCapture(G) THEN "text" ELSE "none"]

NSENT == 24
Inputs(s, G) ==
  LET base == StringsOrdered(Fam.alphaIn, Fam.exhaust)
      extra == [j \in 1..Fam.nextra |-> RndString(H(s, 300 + j), Fam.extraAlpha, Fam.exhaust + 1 + Pick(s, 400 + j, 3))]
      B == BodyMap(Core(G))
      sent == [j \in 1..NSENT |-> Trunc(SentenceInput(B, G.rules[1].name, H(s, 500 + j), Fam.extraAlpha), 12)] \o
              \* the two pinned deep grammars of the act family get inputs that nest beyond 64 levels
              (IF G = DeepGrammar1 THEN <<[j \in 1..70 |-> 97], [j \in 1..90 |-> IF j % 3 = 0 THEN 98 ELSE 97]>>
               ELSE IF G = DeepGrammar2 THEN <<[j \in 1..141 |-> IF j <= 70 THEN 40 ELSE IF j = 71 THEN 233 ELSE 41]>>
               ELSE IF G = LinesGrammar THEN LinesInputs ELSE <<>>)
      all == base \o extra \o sent
      \* long inputs (reuse family): a sentence of the grammar repeated until about 9 000 and 20 000 runes
      nz == SelectSeq(sent, LAMBDA x : Len(x) > 0)
      unit == IF nz = <<>> THEN <<97>> ELSE nz[1]
      long == IF FAMILY = "reuse" THEN <<[rep |-> unit, n |-> 9000 \div Len(unit)],
                                         [rep |-> unit, n |-> (IF G = F122Grammar THEN 30000 ELSE 20000) \div Len(unit)]>> ELSE <<>>
  IN [k \in 1..Len(all) |-> [r |-> all[k]]] \o long

\* byte-level inputs: concatenations of chunks (valid and invalid UTF-8)
Chunks == << <<97>>, <<0>>, <<255>>, <<195, 169>>, <<195>>, <<240, 159, 152, 128>>, <<244, 143, 191, 191>>, <<237, 160, 128>>,
             <<239, 191, 189>>, <<128>>, <<240, 159>>, <<10>>, <<244, 144, 128, 128>> >>
RECURSIVE ByteString(_, _)
ByteString(s, n) == IF n = 0 THEN <<>> ELSE Chunks[1 + Pick(s, 600 + n, Len(Chunks))] \o ByteString(s, n - 1)
\* inputs of the pinned byte-class scenario whose byte length exceeds 255 while runes and tokens stay below it
WideByteInputs == <<[b |-> [j \in 1..400 |-> <<240, 159, 152, 128>>[1 + ((j - 1) % 4)]]],
                    [b |-> [j \in 1..270 |-> <<239, 191, 189>>[1 + ((j - 1) % 3)]]],
                    [b |-> [j \in 1..300 |-> IF j % 3 = 0 THEN 97 ELSE IF j % 3 = 1 THEN 195 ELSE 169]]>>
ByteInputs(s) == [k \in 1..40 |-> [b |-> ByteString(H(s, 700 + k), IF k = 1 THEN 0 ELSE 1 + Pick(s, 800 + k, 6))]]

Hists(s, ninputs) ==
  IF FAMILY # "reuse" THEN <<>>
  ELSE [h \in 1..8 |-> LET len == 2 + Pick(s, 900 + h, 4) IN
         [j \in 1..len |-> IF h <= 2 /\ j > 1 /\ j % 2 = 0 THEN 1 + Pick(s, 910 + h * 7 + j - 1, ninputs)   \* the same input twice in a row
                            ELSE 1 + Pick(s, 910 + h * 7 + j, ninputs)]]

Plan(G) ==
  IF FAMILY = "bytes" /\ G = ByteClassGrammar THEN   \* narrow index types: every pinned input fits uint8 in runes and in tokens, not in bytes
    <<PlanEntry("", TRUE, 0, "uint32", FALSE), PlanEntry("", TRUE, 0, "uint8", FALSE), PlanEntry("", FALSE, 0, "uint8", FALSE)>>
  ELSE IF FAMILY = "reuse" THEN
    <<PlanEntry("", TRUE, 0, "uint32", FALSE), PlanEntry("", TRUE, 1, "uint32", FALSE), PlanEntry("", TRUE, 4096, "uint32", FALSE),
      PlanEntry("", TRUE, 0, "uint16", FALSE), PlanEntry("", TRUE, 0, "uint64", FALSE), PlanEntry("", TRUE, 0, "uint", FALSE),
      PlanEntry("", FALSE, 1, "uint16", FALSE), PlanEntry("", FALSE, 0, "uint32", FALSE)>>
  ELSE
  <<PlanEntry("", TRUE, 0, "uint32", FALSE)>> \o
  (IF Fam.memoOff THEN <<PlanEntry("", FALSE, 0, "uint32", FALSE)>> ELSE <<>>) \o
  (IF Fam.entries THEN [k \in 1..(Len(G.rules) - 1) |-> PlanEntry(G.rules[k + 1].name, TRUE, 0, "uint32", TRUE)] ELSE <<>>)

Candidate(n) == IF FAMILY = "reuse" /\ n = 1 THEN F122Grammar
                ELSE IF FAMILY = "reuse" /\ n = 2 THEN LinesGrammar
                ELSE IF FAMILY = "bytes" /\ n = 1 THEN ByteClassGrammar
                ELSE IF FAMILY = "switch" /\ n = 1 THEN SwitchPinned1
                ELSE IF FAMILY = "switch" /\ n = 2 THEN SwitchPinned2
                ELSE IF FAMILY = "switch" /\ n = 3 THEN SwitchPinned3
                ELSE IF FAMILY = "act" /\ n = 1 THEN DeepGrammar1
                ELSE IF FAMILY = "act" /\ n = 2 THEN DeepGrammar2
                ELSE IF FAMILY = "switch" THEN GenSwitch(H(H(SEED, n), n \div 1499), Fam.cx)
                ELSE IF FAMILY = "lex" THEN GenLex(H(H(SEED, n), n \div 1499), Fam.cx)
                ELSE IF FAMILY = "memo" THEN GenMemo(H(H(SEED, n), n \div 1499), Fam.cx)
                ELSE IF FAMILY = "diag" THEN GenDiag(H(H(SEED, n), n \div 1499), Fam.cx)
                ELSE GenGrammar(H(H(SEED, n), n \div 1499), Fam.cx, Fam.depth)

Scenario(n) ==
  LET G == Candidate(n) IN
  [id |-> n, family |-> FAMILY, seed |-> SEED, grammar |-> G,
   text |-> IF FAMILY = "lex" THEN Render(G, SyntaxStyle(LexStyleOf(n))) ELSE Render(G, Style(G)),
   optsets |-> Fam.optsets,
   inputs |-> IF FAMILY = "diag" THEN <<>> ELSE IF FAMILY = "bytes" THEN ByteInputs(H(SEED, n + 17)) \o (IF G = ByteClassGrammar THEN WideByteInputs ELSE <<>>) ELSE Inputs(H(SEED, n + 17), G),
   plan |-> IF FAMILY = "diag" THEN <<>> ELSE Plan(G),
   hist |-> IF FAMILY = "diag" THEN <<>> ELSE Hists(H(SEED, n + 29), Len(Inputs(H(SEED, n + 17), G)) - (IF FAMILY = "reuse" THEN 2 ELSE 0)),
   inter |-> IF FAMILY = "diag" THEN <<>> ELSE Inters(H(SEED, n + 31), Len(Inputs(H(SEED, n + 17), G)) - (IF FAMILY = "reuse" THEN 2 ELSE 0)),
   conc |-> IF FAMILY = "inst" /\ "GEN_CONC" \in DOMAIN IOEnv THEN atoi(IOEnv.GEN_CONC) ELSE 0,
   \* Parse called twice on one instance without Reset (PegRuntime!ParseAgain): Parse(); Parse()  and  Parse(alt); Parse()
   again |-> [on |-> FAMILY \in {"act", "noast", "reuse", "core", "memo"}, alt |-> G.rules[Len(G.rules)].name],
   collect |-> [toks |-> Fam.collect.toks, exec |-> Fam.collect.exec, ast |-> Fam.collect.ast, msg |-> Fam.collect.msg,
                evs |-> ("GEN_EVS" \in DOMAIN IOEnv /\ IOEnv.GEN_EVS = "1")], allu |-> FAMILY = "reuse", norun |-> FAMILY = "diag", actstyle |-> Style(G).act]

IsWF(n) == FAMILY = "diag" \/ WFB(BodyMap(Core(Candidate(n))))

RECURSIVE Collect(_, _)
Collect(c, n) ==   \* scenarios of chunk c: candidates n = c, c + CHUNKS, ...
  IF n > NCAND THEN <<>>
  ELSE IF FAMILY = "syntax" THEN <<SyntaxScenario(n)>> \o Collect(c, n + CHUNKS)
  ELSE IF FAMILY = "stress"   \* the 1000- and 3000-rule grammars only when at least 100 candidates are asked for (thorough tier)
       THEN (IF n <= StressShapes /\ (n \notin {2, 3} \/ NCAND >= 100) THEN <<StressScenario(n)>> ELSE <<>>) \o Collect(c, n + CHUNKS)
  ELSE (IF IsWF(n) THEN <<Scenario(n)>> ELSE <<>>) \o Collect(c, n + CHUNKS)

VARIABLES chunk, done
Init == chunk \in 1..CHUNKS /\ done = FALSE
Next == /\ ~done
        /\ done' = TRUE
        /\ chunk' = chunk
        /\ ndJsonSerialize(OUTDIR \o "/scen_" \o ToString(chunk) \o ".ndjson", Collect(chunk, chunk))
Spec == Init /\ [][Next]_<<chunk, done>>
=============================================================================
