------------------------------ MODULE JudgeBoot ------------------------------
(***************************************************************************)
(* Conformance judgement for C17 over three recorded observation files:    *)
(*  BOOT_CHAIN: result of running the bootstrap chain in a scratch copy    *)
(*  BOOT_FE:    per text, the result of the checked-in front end and of    *)
(*              the front ends regenerated under "", -inline, -switch,     *)
(*              -inline -switch                                            *)
(*  BOOT_SHIPPED: shipped grammars generated under -strict x option sets   *)
(*              and their parsers run on samples and mutants               *)
(***************************************************************************)
EXTENDS Integers, Sequences, FiniteSets, TLC, Json, IOUtils

Chain   == ndJsonDeserialize(IOEnv.BOOT_CHAIN)
FE      == ndJsonDeserialize(IOEnv.BOOT_FE)         \* [id, text, ref, vars: [opt |-> out]]
Shipped == ndJsonDeserialize(IOEnv.BOOT_SHIPPED)
OUT     == IOEnv.JUDGE_OUT

Same(ref, v) == ref.ok = v.ok /\ ref.panic = v.panic /\ ref.rules = v.rules /\ ref.imports = v.imports /\ ref.out = v.out
Opts == <<"d", "i", "s", "is">>
If(c, x) == IF c THEN <<x>> ELSE <<>>
JudgeChain == If(~(Chain[1].rc = 0 /\ Chain[1].equal),
                 [kind |-> "mis", prop |-> "C17", field |-> "bootstrap-chain", id |-> 0, want |-> "byte-identical peg.peg.go", got |-> Chain[1]])
RECURSIVE JudgeFE(_)
JudgeFE(k) ==
  IF k > Len(FE) THEN <<>>
  ELSE LET r == FE[k]
           bad == {o \in {Opts[j] : j \in 1..Len(Opts)} : ~Same(r.ref, r.vars[o])} IN
       If(r.ref.panic # "", [kind |-> "mis", prop |-> "C17", field |-> "front-end-panic", id |-> r.id, want |-> "", got |-> r.ref.panic]) \o
       If(bad # {}, [kind |-> "mis", prop |-> "C17", field |-> "regenerated-front-end-differs", id |-> r.id, want |-> r.ref.out,
                     got |-> [o \in bad |-> [ok |-> r.vars[o].ok, out |-> r.vars[o].out, panic |-> r.vars[o].panic]]]) \o
       JudgeFE(k + 1)
RECURSIVE JudgeShipped(_)
JudgeShipped(k) ==
  IF k > Len(Shipped) THEN <<>>
  ELSE LET x == Shipped[k] IN
       (IF x.kind = "gen"
        THEN If(x.g.exit # 0 \/ x.g.stderr # "" \/ ~x.g.built,
                [kind |-> "mis", prop |-> "C17", field |-> "shipped-grammar-generation", id |-> k, want |-> "silent -strict generation that compiles", got |-> x.g])
        ELSE LET o == x.o
                 oks == {o.ok[n] : n \in DOMAIN o.ok} dgs == {o.digest[n] : n \in DOMAIN o.digest} pns == {o.panic[n] : n \in DOMAIN o.panic} IN
             \* C13: no panic on any input (arbitrary bytes included), whatever the option set
             If(pns # {""}, [kind |-> "mis", prop |-> "C13", field |-> "shipped-parser-panics", id |-> k, want |-> "nil or a parse error",
                             got |-> [grammar |-> o.grammar, input |-> o.input, inputkind |-> o.kind, panic |-> o.panic]]) \o
             If(Cardinality(oks) # 1 \/ Cardinality(dgs) # 1 \/ pns # {""},
                [kind |-> "mis", prop |-> "C17", field |-> "shipped-parsers-disagree", id |-> k, want |-> "same verdict and tokens under all option sets",
                 got |-> [grammar |-> o.grammar, input |-> o.input, inputkind |-> o.kind, ok |-> o.ok, digest |-> o.digest, panic |-> o.panic]])) \o
       JudgeShipped(k + 1)

VARIABLES xdone
Init == xdone = FALSE
Next == ~xdone /\ xdone' = TRUE
        /\ ndJsonSerialize(OUT, JudgeChain \o JudgeFE(1) \o JudgeShipped(1) \o
             <<[kind |-> "stat", texts |-> Len(FE), shipped |-> Len(Shipped),
                accepted |-> Cardinality({k \in 1..Len(FE) : FE[k].ref.ok})]>>)
Spec == Init /\ [][Next]_xdone
=============================================================================
