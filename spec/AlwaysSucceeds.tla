--------------------------- MODULE AlwaysSucceeds ---------------------------
(***************************************************************************)
(* Transcription of node.CheckAlwaysSucceeds (tree/peg.go): the syntactic  *)
(* test by which the code generator decides that a call `_rules[ruleX]()`  *)
(* needs no `if !... { goto ko }` around it.  The emitted call then ignores *)
(* the rule's verdict, so the test must be SOUND with respect to PegSem:   *)
(* whenever it answers TRUE the rule succeeds at every offset of every     *)
(* input.  A wrong TRUE silently turns a failing rule into "matched empty" *)
(* (C01, C02, C07).                                                        *)
(*                                                                         *)
(* The code walks the rule tree with a map `visited` that holds the rules  *)
(* on the current path: a reference to a rule on the path is taken to      *)
(* succeed (a coinductive reading, sound only because well-formed grammars *)
(* have no left recursion, see CASSound below), the mark is removed when   *)
(* the walk returns.  Operands as desugared by PegSyntax!Desugar, which is *)
(* what the builder makes of literals, strings and classes.                *)
(***************************************************************************)
EXTENDS PegSem

RECURSIVE CAS(_, _, _), CASAny(_, _, _, _), CASAll(_, _, _, _)
CASAny(B, es, k, path) == k <= Len(es) /\ (CAS(B, es[k], path) \/ CASAny(B, es, k + 1, path))
CASAll(B, es, k, path) == k > Len(es) \/ (CAS(B, es[k], path) /\ CASAll(B, es, k + 1, path))
CAS(B, e, path) ==
  CASE e.op = "ref" -> IF e.r \notin DOMAIN B THEN FALSE             \* rule == nil
                       ELSE IF e.r \in path THEN TRUE                 \* visited[rule]
                       ELSE CAS(B, B[e.r], path \cup {e.r})
    [] e.op = "alt" -> CASAny(B, e.es, 1, path)
    [] e.op = "seq" -> CASAll(B, e.es, 1, path)
    [] e.op = "cap" -> CAS(B, e.a, path)                               \* TypePush, TypeImplicitPush
    [] e.op \in {"act", "opt", "star", "nil"} -> TRUE                  \* TypeAction, TypeQuery, TypeStar, TypeNil
    [] OTHER -> FALSE   \* dot, character, range, + , & , !, &{pred}, !{state change}

\* rule.CheckAlwaysSucceeds(t): n is the TypeRule node, the walk starts at its expression with
\* nothing marked (the rule itself is NOT on the path at first)
CASRule(B, r) == r \in DOMAIN B /\ CAS(B, B[r], {})

\* the call sites the emitted parser has without -inline and -switch: references inside rules
\* reachable from the first rule (unreachable rules get a nil entry and no code)
CallSites(B, first) == (UNION {Refs(B[r]) : r \in Reachable(B, first)}) \cap DOMAIN B
Unguarded(B, first) == {r \in CallSites(B, first) : CASRule(B, r)}
Guarded(B, first)   == CallSites(B, first) \ Unguarded(B, first)

(* ---------- the requirement on the test --------------------------------- *)
\* soundness at one input: a rule the test accepts succeeds from every offset
CASSoundAt(B, w) == \A r \in DOMAIN B : CASRule(B, r) => \A i \in 0..Len(w) : Eval(B, w, B[r], i).ok
\* (completeness is not required: `'a'* 'b'?`-style bodies behind + or & are answered FALSE)

\* what an unsound variant looks like (used by the refuted configurations): + and & of an
\* always-succeeding operand, and the path mark put on the rule the walk starts from
RECURSIVE CASx(_, _, _, _), CASxAny(_, _, _, _, _), CASxAll(_, _, _, _, _)
CASxAny(B, es, k, path, v) == k <= Len(es) /\ (CASx(B, es[k], path, v) \/ CASxAny(B, es, k + 1, path, v))
CASxAll(B, es, k, path, v) == k > Len(es) \/ (CASx(B, es[k], path, v) /\ CASxAll(B, es, k + 1, path, v))
CASx(B, e, path, v) ==
  CASE e.op = "ref" -> IF e.r \notin DOMAIN B THEN FALSE ELSE IF e.r \in path THEN v # "path-false" ELSE CASx(B, B[e.r], path \cup {e.r}, v)
    [] e.op = "alt" -> CASxAny(B, e.es, 1, path, v)
    [] e.op = "seq" -> IF v = "seq-any" THEN CASxAny(B, e.es, 1, path, v) ELSE CASxAll(B, e.es, 1, path, v)
    [] e.op = "cap" -> CASx(B, e.a, path, v)
    [] e.op \in {"act", "opt", "star", "nil"} -> TRUE
    [] e.op = "not" -> v = "not-true"
    [] e.op = "pred" -> v = "pred-true"
    [] OTHER -> FALSE
CASxRule(B, r, v) == r \in DOMAIN B /\ CASx(B, B[r], {}, v)
\* On a well-formed grammar the path shortcut never decides an answer: everything the test accepts
\* is nullable, so a reference back into the path behind accepted operands would be a left recursion.
ShortcutIdle(B) == \A r \in DOMAIN B : CASxRule(B, r, "path-false") = CASRule(B, r)
\* ... and every accepted rule is nullable (the syntactic reason for the line above)
AcceptedNullable(B) == \A r \in DOMAIN B : CASRule(B, r) => r \in Nullable(B)
CASxSoundAt(B, w, v) == \A r \in DOMAIN B : CASxRule(B, r, v) => \A i \in 0..Len(w) : Eval(B, w, B[r], i).ok
=============================================================================
