------------------------------- MODULE TraceVM -------------------------------
(***************************************************************************)
(* L2 trace validation: every event trace recorded from a generated parser *)
(* (hooks of the verif-tagged generator: enter, hit, add, store, restore,  *)
(* exit, each with position / tokenIndex and its arguments) must be the    *)
(* event sequence of a behaviour of PegVM for the same grammar, input,     *)
(* entry rule and memoisation setting.  PegVM is deterministic, so each    *)
(* trace is one initial state and one path; silent machine steps leave the *)
(* trace position unchanged.  The invariants of PegVM are evaluated in     *)
(* every state of every validated execution.                               *)
(*   JUDGE_IN: joined NDJSON [sc, units]; JUDGE_OUT: directory for one     *)
(*   file per rejected trace.                                              *)
(***************************************************************************)
EXTENDS PegVM, Json, IOUtils

Recs   == ndJsonDeserialize(IOEnv.JUDGE_IN)
OUTDIR == IOEnv.JUDGE_OUT
Bodies == [s \in 1..Len(Recs) |-> BodyMap(ShapeG(Core(Recs[s].sc.grammar)))]

\* -switch units run on the bodies that the transcribed optimiser passes produce (Optimizer!OptGrammarCode, repaired rules)
OZ == INSTANCE Optimizer WITH RewriteNullable <- FALSE, SkipThroughAll <- FALSE, FirstPasses <- 0
InAlphaOf(s) == UNION {{Recs[s].sc.inputs[k].r[j] : j \in 1..Len(Recs[s].sc.inputs[k].r)} :
                       k \in {x \in 1..Len(Recs[s].sc.inputs) : "r" \in DOMAIN Recs[s].sc.inputs[x]}}
SwBodies == [s \in 1..Len(Recs) |-> OZ!OptGrammarCode(Bodies[s], InAlphaOf(s), Recs[s].sc.grammar.rules[1].name)]

HasEvs(r) == "evs" \in DOMAIN r /\ r.pn = ""
Traces == UNION {{<<s, u, j>> : u \in {x \in 1..Len(Recs[s].units) : Recs[s].units[x].opt \in {"", "i", "s", "is"}},
                               j \in 1..600} : s \in 1..Len(Recs)}
Valid(T) == T[3] <= Len(Recs[T[1]].units[T[2]].runs) /\ HasEvs(Recs[T[1]].units[T[2]].runs[T[3]])

VARIABLES T, l, rejected, reported
tvars == <<T, l, rejected, reported, pos, tix, tree, maxTok, memo, stk, st, cur, ev, nhit, nadd>>

\* rules the generator inlines under -inline: referenced exactly once from the rules reachable from the first rule
\* (every action is a pseudo-rule referenced once), never the first rule
RECURSIVE Occ(_, _), OccL(_, _)
OccL(es, r) == IF es = <<>> THEN 0 ELSE Occ(Head(es), r) + OccL(Tail(es), r)
Occ(e, r) == CASE e.op = "ref" -> (IF e.r = r THEN 1 ELSE 0)
               [] e.op \in UnaryOps -> Occ(e.a, r)
               [] e.op \in ListOps -> OccL(e.es, r)
               [] OTHER -> 0
RECURSIVE SumOcc(_, _, _)
SumOcc(B, S, r) == IF S = {} THEN 0 ELSE LET q == CHOOSE q \in S : TRUE IN Occ(B[q], r) + SumOcc(B, S \ {q}, r)
InlinedSet(s) ==
  LET B == Bodies[s] first == Recs[s].sc.grammar.rules[1].name reach == Reachable(B, first) IN
  {r \in reach \ {first} : SumOcc(B, reach, r) = 1} \cup {ActName(k) : k \in 0..63}
Inl == [s \in 1..Len(Recs) |-> InlinedSet(s)]
Run == Recs[T[1]].units[T[2]].runs[T[3]]
OptOf == Recs[T[1]].units[T[2]].opt
InlOf == IF OptOf \in {"i", "is"} THEN Inl[T[1]] ELSE {}
BodiesOf == IF OptOf \in {"s", "is"} THEN SwBodies[T[1]] ELSE Bodies[T[1]]
Sc == Recs[T[1]].sc
Pl == Sc.plan[Run.c]
EntryOf == IF Pl.entry = "" THEN Sc.grammar.rules[1].name ELSE Pl.entry

Init == /\ T \in {t \in Traces : Valid(t)}
        /\ l = 1 /\ rejected = <<>> /\ reported = FALSE
        /\ VMInit(EntryOf)

MinI(a, b) == IF a < b THEN a ELSE b
StepAndCompare ==
  /\ ~Done /\ rejected = <<>>
  /\ StepSw(BodiesOf, Run.w, Pl.memo, InlOf)
  /\ LET n == Len(ev')
         got == SubSeq(Run.evs, l, MinI(l + n - 1, Len(Run.evs)))
     IN IF ev' = got THEN l' = l + n /\ rejected' = <<>>
        ELSE l' = l /\ rejected' = <<"event", l, ev', got>>
  /\ UNCHANGED <<T, reported>>
Finish ==
  /\ Done /\ rejected = <<>> /\ ~reported
  /\ \/ l <= Len(Run.evs) /\ rejected' = <<"extra-events", l, <<>>, SubSeq(Run.evs, l, MinI(l + 3, Len(Run.evs)))>>
     \/ l > Len(Run.evs) /\ (st = "accept") # Run.ok /\ rejected' = <<"verdict", l, st, Run.ok>>
  /\ UNCHANGED <<T, l, reported, pos, tix, tree, maxTok, memo, stk, st, cur, ev, nhit, nadd>>
\* which kind of event is the first to differ (used to attribute the rejection to a property)
FirstDiff(a, b) == LET S == {k \in 1..MinI(Len(a), Len(b)) : a[k] # b[k]} IN
                   IF S = {} THEN MinI(Len(a), Len(b)) + 1 ELSE CHOOSE k \in S : \A j \in S : k <= j
KindAt(a, k) == IF k <= Len(a) THEN a[k][1] ELSE "none"
ClassOf(rj) ==
  IF rj[1] # "event" THEN rj[1]
  ELSE LET d == FirstDiff(rj[3], rj[4]) ks == {KindAt(rj[3], d), KindAt(rj[4], d)} IN
       IF "hit" \in ks THEN "hit" ELSE IF "add" \in ks THEN "add" ELSE IF "store" \in ks THEN "store" ELSE "control"
Report ==
  /\ rejected # <<>> /\ ~reported /\ reported' = TRUE
  /\ ndJsonSerialize(OUTDIR \o "/l2_" \o ToString(Sc.id) \o "_" \o ToString(T[2]) \o "_" \o ToString(T[3]) \o ".ndjson",
       <<[kind |-> "l2", id |-> Sc.id, opt |-> Recs[T[1]].units[T[2]].opt, i |-> Run.i, c |-> Run.c, h |-> Run.h, s |-> Run.s, w |-> Run.w,
          field |-> rejected[1], class |-> ClassOf(rejected), at |-> rejected[2], want |-> rejected[3], got |-> rejected[4],
          state |-> [pos |-> pos, tix |-> tix, st |-> st, live |-> SubSeq(tree, 1, MinI(tix, Len(tree)))]]>>)
  /\ UNCHANGED <<T, l, rejected, pos, tix, tree, maxTok, memo, stk, st, cur, ev, nhit, nadd>>
Next == StepAndCompare \/ Finish \/ Report
Spec == Init /\ [][Next]_tvars

\* PegVM invariants, evaluated in every state of every real execution
AgreeInv == rejected = <<>> => Agree(Bodies[T[1]], Run.w, EntryOf)
TokensLiveInv == TokensLive(Run.w)
MemoConsistentInv == Done => MemoConsistent(Bodies[T[1]], Run.w)    \* (every entry; evaluated once per execution)
FurthestInv == FurthestOK(Run.w)
=============================================================================
