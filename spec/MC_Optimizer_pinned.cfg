SPECIFICATION Spec
CONSTANTS
  RewriteNullable = TRUE
  SkipThroughAll = TRUE
  FirstPasses = 0
INVARIANT Sound
CHECK_DEADLOCK FALSE
