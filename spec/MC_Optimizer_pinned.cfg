SPECIFICATION Spec
CONSTANTS
  RewriteNullable = TRUE
  SkipThroughAll = TRUE
INVARIANT Sound
CHECK_DEADLOCK FALSE
