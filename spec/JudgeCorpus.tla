---------------------------- MODULE JudgeCorpus ----------------------------
(***************************************************************************)
(* Conformance oracle (L1) for the parser corpus.  Reads, per scenario,    *)
(* the scenario TLC generated and what the real generated parsers did      *)
(* (recorded by the Go driver), recomputes the requirement with the        *)
(* operators of PegSem/TokenConsumers and writes one line per rejected     *)
(* observation plus per-unit statistics.                                   *)
(*   JUDGE_IN: prefix of the joined NDJSON files, one record [sc, units]   *)
(*             per scenario, one file per chunk                            *)
(*   JUDGE_OUT: directory for verdict files; JUDGE_CHUNKS: parallelism     *)
(***************************************************************************)
EXTENDS TokenConsumers, Analysis, AlwaysSucceeds, Json, IOUtils

\* the joined records are split by the orchestrator into one file per chunk (JUDGE_IN_<c>.ndjson), so that
\* every TLC worker deserialises only the records it judges
RecsOf(c) == ndJsonDeserialize(IOEnv.JUDGE_IN \o "_" \o ToString(c) \o ".ndjson")
CHUNKS == atoi(IOEnv.JUDGE_CHUNKS)
OUTDIR == IOEnv.JUDGE_OUT

Mis(prop, field, u, r, want, got) ==
  [kind |-> "mis", prop |-> prop, field |-> field, opt |-> u.opt, i |-> r.i, c |-> r.c, h |-> r.h, s |-> r.s,
   w |-> r.w, want |-> want, got |-> got, wl |-> IF "wl" \in DOMAIN r THEN r.wl ELSE Len(r.w)]
If(c, x) == IF c THEN <<x>> ELSE <<>>

Has(r, f) == f \in DOMAIN r
Field(r, f) == IF Has(r, f) THEN r[f] ELSE <<>>

IsDefaultPlan(pl) == pl.memo /\ pl.size = 0 /\ pl.u = "uint32"
LastEnd(tk) == IF tk = <<>> THEN -1 ELSE tk[Len(tk)][3]

(* ---------- absolute checks: default options, fresh instance, default config ---------- *)
Absolute(sc, B, u, r) ==
  LET pl == sc.plan[r.c]
      entry == IF pl.entry = "" THEN sc.grammar.rules[1].name ELSE pl.entry
      E == Parse(B, r.w, entry)
      et == ErrTok(E.adds)
  IN
  If(r.pn # "", Mis("C13", "panic", u, r, "", r.pn)) \o
  If(Has(sc.inputs[r.i], "r") /\ sc.inputs[r.i].r # r.w, Mis("INFRA", "input-echo", u, r, sc.inputs[r.i].r, r.w)) \o
  (IF r.pn # "" THEN <<>> ELSE
   If(r.ok # E.ok, Mis("C01", "verdict", u, r, E.ok, r.ok)) \o
   \* C13 for an arbitrary Go string (family bytes): the parser works on []rune(Buffer) - r.w, computed by the shim
   \* independently of the parser - so verdict and tokens are PegSem's on that rune sequence; otherwise slicing the
   \* rune sequence by a token does not give what the token's rule matched (an invalid byte read as another rune)
   If(Has(sc.inputs[r.i], "b") /\ (r.ok # E.ok \/ (r.ok /\ r.tk # E.toks)),
      Mis("C13", "rune-sequence", u, r, <<E.ok, E.toks>>, <<r.ok, r.tk>>)) \o
   (IF r.ok /\ E.ok THEN
      If(LastEnd(r.tk) # E.pos, Mis("C01", "consumed", u, r, E.pos, LastEnd(r.tk))) \o
      If(r.tk # E.toks, Mis("C03", "tokens", u, r, E.toks, r.tk)) \o
      If(\E k \in 1..Len(r.tk) : ~(0 <= r.tk[k][2] /\ r.tk[k][2] <= r.tk[k][3] /\ r.tk[k][3] <= Len(r.w)),
         Mis("C13", "token-range", u, r, Len(r.w), r.tk)) \o
      (IF sc.collect.exec
       THEN If(r.hasx # (NumActions(sc.grammar) > 0), Mis("C04", "has-execute", u, r, NumActions(sc.grammar) > 0, r.hasx)) \o
            LET X == ExecWithText(E.toks, r.w)
                \* what the probe was handed: all of text, begin, end ("full") or text only / nothing
                want == [k \in 1..Len(X) |-> CASE sc.actstyle = "full" -> X[k]
                                               [] sc.actstyle = "text" -> <<X[k][1], X[k][2], 0, 0>>
                                               [] OTHER -> <<X[k][1], <<>>, 0, 0>>]
            IN If(Field(r, "ex") # want, Mis("C04", "exec", u, r, want, Field(r, "ex")))
       ELSE <<>>) \o
      (IF sc.collect.ast
       THEN If(Field(r, "as") # DerivTree(E.toks), Mis("C05", "ast", u, r, DerivTree(E.toks), Field(r, "as"))) \o
            If(~r.prok \/ ~r.pr2, Mis("C05", "print-shape", u, r, TRUE, <<r.prok, r.pr2>>)) \o
            If(r.prok /\ Field(r, "pr") # PrintLines(E.toks, r.w), Mis("C05", "printed", u, r, PrintLines(E.toks, r.w), Field(r, "pr")))
       ELSE <<>>)
    ELSE IF ~r.ok /\ ~E.ok THEN
      If(r.et # et, Mis("C11", "error-token", u, r, et, r.et)) \o
      If(~(0 <= r.et[2] /\ r.et[2] <= r.et[3] /\ r.et[3] <= Len(r.w)), Mis("C11", "error-token-range", u, r, Len(r.w), r.et)) \o
      (IF sc.collect.msg /\ Has(r, "ms") /\ r.et = et
       THEN LET F == ErrorFields(r.w, et) m == r.ms IN
            IF ~m.wf THEN <<Mis("C11", "message-shape", u, r, "documented shape", m.raw)>>
            ELSE If(m.rule # F.rule, Mis("C11", "message-rule", u, r, F.rule, m.rule)) \o
                 If(<<m.l1, m.c1>> # F.lc1, Mis("C11", "message-begin", u, r, F.lc1, <<m.l1, m.c1>>)) \o
                 If(<<m.l2, m.c2>> # F.lc2, Mis("C11", "message-end", u, r, F.lc2, <<m.l2, m.c2>>)) \o
                 If(m.quoted # F.quoted, Mis("C11", "message-quoted", u, r, F.quoted, m.quoted))
       ELSE <<>>)
    ELSE <<>>))

(* ---------- relative checks: another option set / configuration / history against the default ---------- *)
CmpFields == <<"ok", "pn", "tk", "tkn", "tkh", "et", "ex", "as", "pr", "ms", "lg">>
\* the shim abandons a parse of a long input after a deadline ("hang: ..."); when the reference run of a comparison is
\* that slow, the input is not judged at all
Slow(r) == "hang" \in DOMAIN r /\ r.hang /\ "wl" \in DOMAIN r /\ r.wl >= 5000
\* the reference observation's token count goes with the record (known-finding signatures use it)
WithRef(m, d) == m @@ [ref |-> [tkn |-> IF Has(d, "tkn") THEN d.tkn ELSE 0, ok |-> d.ok]]
RECURSIVE CmpFrom(_, _, _, _, _, _)
CmpFrom(prop, u, r, d, k, fields) ==
  IF k > Len(fields) \/ Slow(d) THEN <<>>
  ELSE LET f == fields[k] IN
       If(Field(r, f) # Field(d, f), WithRef(Mis(prop, "differs:" \o f, u, r, Field(d, f), Field(r, f)), d)) \o CmpFrom(prop, u, r, d, k + 1, fields)

\* the property that owns an observed field (a step of a history that differs from the fresh
\* instance violates C12 and the property that states what that field must be)
Owner(f, opt) ==
  IF opt \in {"n", "ni", "ns", "nis"} THEN "C07"
  ELSE CASE f = "ok" -> "C01" [] f = "pn" -> "C13" [] f = "tk" -> "C03" [] f \in {"et", "ms"} -> "C11"
         [] f \in {"tkn", "tkh"} -> "C03" [] f = "ex" -> "C04" [] f \in {"as", "pr"} -> "C05" [] OTHER -> "C07"
RECURSIVE CmpOwned(_, _, _, _, _)
CmpOwned(u, r, d, k, fields) ==
  IF k > Len(fields) \/ Slow(d) THEN <<>>
  ELSE LET f == fields[k] IN
       (IF Field(r, f) # Field(d, f)
        THEN <<WithRef(Mis("C12", "differs:" \o f, u, r, Field(d, f), Field(r, f)), d),
               WithRef(Mis(Owner(f, u.opt), "reuse-differs:" \o f, u, r, Field(d, f), Field(r, f)), d)>>
        ELSE <<>>) \o CmpOwned(u, r, d, k + 1, fields)

\* index of the run with the same (i, c, h, s) in unit d, or 0.  Units emit runs in the same
\* order; an inlined unit skips plan entries marked skipi, which come last in the plan.
FindRun(d, r, k) ==
  IF k <= Len(d.runs) /\ d.runs[k].i = r.i /\ d.runs[k].c = r.c /\ d.runs[k].h = r.h /\ d.runs[k].s = r.s THEN k
  ELSE LET S == {j \in 1..Len(d.runs) : d.runs[j].i = r.i /\ d.runs[j].c = r.c /\ d.runs[j].h = r.h /\ d.runs[j].s = r.s}
       IN IF S = {} THEN 0 ELSE CHOOSE j \in S : TRUE

DefaultPlanIdx(sc, pl) ==
  LET S == {j \in 1..Len(sc.plan) : sc.plan[j].entry = pl.entry /\ IsDefaultPlan(sc.plan[j])} IN
  IF S = {} THEN 0 ELSE CHOOSE j \in S : \A j2 \in S : j <= j2

IsNoAst(opt) == opt \in {"n", "ni", "ns", "nis"}

\* -noast: same verdict as the default parser; the inline action log is what PegSem!NoAstLog
\* derives (-noast, -noast -inline); with -switch, alternatives that cannot start are skipped
\* legitimately, so only the derivation's own actions are required, in order
NoAstJudge(sc, u, r) ==
  IF r.pn # "" \/ r.h > 0 \/ Has(sc.inputs[r.i], "rep") THEN <<>> ELSE
  LET B == BodyMap(Core(sc.grammar))
      pl == sc.plan[r.c]
      entry == IF pl.entry = "" THEN sc.grammar.rules[1].name ELSE pl.entry
      E == Parse(B, r.w, entry)
      want == NoAstLog(E.adds, r.w)
      ks(l) == [k \in 1..Len(l) |-> l[k][1]]
  IN IF u.opt \in {"n", "ni"}
     THEN If(r.lg # want, Mis("C07", "inline-log", u, r, want, r.lg))
     ELSE If(E.ok /\ ~IsSubseq(ks(ExecLog(E.toks)), 1, ks(r.lg), 1), Mis("C07", "inline-log-derivation", u, r, ks(ExecLog(E.toks)), r.lg))

\* Parse called twice without Reset (PegRuntime!ParseAgain).  The default parser is judged against the semantics: a
\* failed Parse leaves the instance where it was, so the second call is a parse of its own; a successful one leaves
\* position and tokens, and the second call goes on from there.  Other option sets are compared with the default parser.
AgainJudge(sc, du, u, r, k) ==
  IF r.pn # "" THEN <<Mis(IF IsNoAst(u.opt) THEN "C07" ELSE "C13", "panic-second-parse", u, r, "", r.pn)>>
  ELSE IF u.opt # ""
  THEN (IF du = <<>> THEN <<>> ELSE
        LET j == FindRun(du[1], r, k) IN
        IF j = 0 THEN <<>>
        ELSE LET d == du[1].runs[j] IN
             IF d.pn # "" THEN <<>>
             ELSE IF IsNoAst(u.opt) THEN CmpFrom("C07", u, r, d, 1, <<"f1", "ok">>)
             ELSE CmpFrom("C02", u, r, d, 1, IF r.ok /\ d.ok THEN <<"f1", "ok", "tk">> ELSE <<"f1", "ok">>))
  ELSE
  LET B == BodyMap(Core(sc.grammar))
      first == sc.grammar.rules[1].name
      entry1 == IF r.h = 3002 THEN sc.again.alt ELSE first
      E1 == Parse(B, r.w, entry1)
      E2 == IF E1.ok THEN Eval(B, r.w, Ref(first), E1.pos) ELSE Parse(B, r.w, first)
      toks == IF E1.ok THEN E1.toks \o E2.toks ELSE E2.toks
      X == ExecWithText(toks, r.w)
      want == [n \in 1..Len(X) |-> CASE sc.actstyle = "full" -> X[n]
                                      [] sc.actstyle = "text" -> <<X[n][1], X[n][2], 0, 0>>
                                      [] OTHER -> <<X[n][1], <<>>, 0, 0>>]
  IN If(r.f1 # (IF E1.ok THEN 1 ELSE 2), Mis("C01", "second-parse:first-verdict", u, r, E1.ok, r.f1)) \o
     (IF r.f1 # (IF E1.ok THEN 1 ELSE 2) THEN <<>> ELSE
      If(r.ok # E2.ok, Mis("C01", "second-parse:verdict", u, r, E2.ok, r.ok)) \o
      (IF r.ok /\ E2.ok THEN
         If(r.tk # toks, Mis("C03", "second-parse:tokens", u, r, toks, r.tk)) \o
         (IF sc.collect.exec      \* Execute must run the actions of the successful derivation, and only those
          THEN If(Field(r, "ex") # want, Mis("C04", "second-parse:actions", u, r, want, Field(r, "ex"))) ELSE <<>>)
       ELSE <<>>))

Relative(sc, units, du, u, k) ==
  LET r == u.runs[k] pl == sc.plan[r.c] IN
  IF r.h >= 3000 THEN AgainJudge(sc, du, u, r, k) ELSE
  IF r.h < 0 THEN   \* an instance used interleaved with (h > -1000) or concurrently to (h <= -1000) other instances:
                    \* PegRuntime!Confinement - it shows what it shows when used alone
     IF r.h <= -2000 THEN <<>>   \* the solo reference of a history with a second Parse (PegRuntime!ParseAgain)
     ELSE IF r.h > -1000 /\ -r.h <= Len(sc.inter) /\ sc.inter[-r.h].twice
     THEN LET S == {j \in 1..Len(u.runs) : u.runs[j].i = r.i /\ u.runs[j].h = r.h - 2000 /\ u.runs[j].s = r.s} IN
          IF S = {} THEN <<Mis("C14", "no-solo-reference", u, r, "", "")>>
          ELSE CmpFrom("C14", u, r, u.runs[CHOOSE j \in S : TRUE], 1, <<"ok", "pn", "tk", "et", "ex", "as", "pr">>)
     ELSE
     LET S == {j \in 1..Len(u.runs) : u.runs[j].i = r.i /\ u.runs[j].c = 1 /\ u.runs[j].h = 0} IN
     IF S = {} THEN <<>> ELSE CmpFrom("C14", u, r, u.runs[CHOOSE j \in S : TRUE], 1, <<"ok", "pn", "tk", "et", "ex", "as", "pr">>)
  ELSE IF u.opt # "" /\ r.h > 0 THEN   \* reuse of an optimised / -noast parser: against its own fresh run
     LET S == {j \in 1..Len(u.runs) : u.runs[j].i = r.i /\ u.runs[j].c = r.c /\ u.runs[j].h = 0} IN
     IF S = {} THEN <<>> ELSE CmpOwned(u, r, u.runs[CHOOSE j \in S : TRUE], 1, <<"ok", "pn", "tk", "et", "lg">>)
  ELSE IF u.opt # "" THEN
     (IF du = <<>> THEN <<>> ELSE
      LET j == FindRun(du[1], r, k) IN
      IF j = 0 THEN <<>>
      ELSE LET d == du[1].runs[j] IN
           IF IsNoAst(u.opt)
           THEN CmpFrom("C07", u, r, d, 1, <<"ok", "pn">>) \o NoAstJudge(sc, u, r)
           ELSE CmpFrom("C02", u, r, d, 1, IF r.ok /\ d.ok THEN <<"ok", "pn", "tk", "tkn", "tkh">> ELSE <<"ok", "pn">>) \o
                \* C03 is stated for every generated parser: tokens under an option set that differ from the
                \* default parser's, while the default parser's are the derivation's, are not the derivation's
                (IF r.ok /\ d.ok /\ r.tk # d.tk /\ d.tk = Parse(BodyMap(Core(sc.grammar)), d.w, IF pl.entry = "" THEN sc.grammar.rules[1].name ELSE pl.entry).toks
                 THEN <<Mis("C03", "tokens-under-option", u, r, d.tk, r.tk)>> ELSE <<>>) \o
                (IF r.ok /\ d.ok /\ sc.collect.exec /\ Field(r, "ex") # Field(d, "ex")
                 THEN <<Mis("C04", "exec-under-option", u, r, Field(d, "ex"), Field(r, "ex"))>> ELSE <<>>))
  ELSE IF r.h > 0 THEN   \* a step of a history on a long-lived instance against the fresh instance
     LET S == {j \in 1..Len(u.runs) : u.runs[j].i = r.i /\ u.runs[j].c = r.c /\ u.runs[j].h = 0} IN
     (IF S = {} THEN <<>> ELSE CmpOwned(u, r, u.runs[CHOOSE j \in S : TRUE], 1, CmpFields)) \o
     \* the same history step with memoisation disabled against the memoising instance
     (IF pl.memo \/ pl.size # 0 \/ pl.u # "uint32" THEN <<>> ELSE
      LET c0 == DefaultPlanIdx(sc, pl)
          T == {j \in 1..Len(u.runs) : u.runs[j].i = r.i /\ u.runs[j].c = c0 /\ u.runs[j].h = r.h /\ u.runs[j].s = r.s} IN
      IF c0 = 0 \/ T = {} THEN <<>> ELSE CmpFrom("C06", u, r, u.runs[CHOOSE j \in T : TRUE], 1, CmpFields))
  ELSE IF ~IsDefaultPlan(pl) THEN
     LET c0 == DefaultPlanIdx(sc, pl)
         S == {j \in 1..Len(u.runs) : u.runs[j].i = r.i /\ u.runs[j].c = c0 /\ u.runs[j].h = 0} IN
     IF c0 = 0 \/ S = {} THEN <<>>
     ELSE CmpFrom(IF ~pl.memo /\ pl.size = 0 /\ pl.u = "uint32" THEN "C06" ELSE "C12", u, r, u.runs[CHOOSE j \in S : TRUE], 1, CmpFields) \o
          \* C05 is stated for every instantiation: the tree and its printed form under another index type
          (IF pl.u # "uint32" THEN CmpFrom("C05", u, r, u.runs[CHOOSE j \in S : TRUE], 1, <<"as", "pr">>) ELSE <<>>)
  ELSE <<>>

RECURSIVE JudgeRuns(_, _, _, _, _, _)
JudgeRuns(sc, B, units, du, u, k) ==
  IF k > Len(u.runs) THEN <<>>
  ELSE LET r == u.runs[k] pl == sc.plan[r.c] IN
       (IF u.opt = "" /\ r.h = 0 /\ IsDefaultPlan(pl)
        THEN (IF Has(sc.inputs[r.i], "rep")    \* a long input: no panic, verdict by relation to the other configurations only
                                               \* (a slow reference run is not a hang: some grammars need quadratic time)
              THEN If(r.pn # "" /\ ~Slow(r), Mis("C13", "panic", u, r, "", r.pn))
              ELSE Absolute(sc, B, u, r))
        ELSE Relative(sc, units, du, u, k))
       \o JudgeRuns(sc, B, units, du, u, k + 1)

GenMis(u, prop, field, want, got) ==
  [kind |-> "mis", prop |-> prop, field |-> field, opt |-> u.opt, i |-> 0, c |-> 0, h |-> 0, s |-> 0, w |-> <<>>, want |-> want, got |-> got]

\* generation-level observations of one unit (a well-formed grammar: no diagnostics expected)
JudgeGen(sc, u) ==
  If(u.gen.exit # 0 \/ u.gen.timeout, GenMis(u, "C08", "gen-exit", 0, <<u.gen.exit, u.gen.stderr>>)) \o
  If(u.gen.exit = 0 /\ ~u.gen.hasout, GenMis(u, "C18", "exit0-no-output", TRUE, FALSE)) \o
  If(u.gen.hasout /\ ~u.gen.compiles, GenMis(u, "C08", "compiles", TRUE, u.gen.msg)) \o
  If(u.gen.hasout /\ ~u.gen.gofmt, GenMis(u, "C08", "gofmt", TRUE, FALSE)) \o
  If(u.gen.stderr # "" /\ u.gen.exit = 0 /\ ~("nowarn" \in DOMAIN sc /\ ~sc.nowarn), GenMis(u, "C15", "silent", "", u.gen.stderr)) \o
  If(u.fate # "", GenMis(u, IF u.fate = "race" THEN "C14" ELSE "C13", u.fate, "", u.note))

\* diagnostics of a grammar that need not be well formed (family "diag"); u.gen.diags is the list of
\* <<kind, rule>> pairs the driver found on stderr
DiagSet(u, kind) == {u.gen.diags[k][2] : k \in {x \in 1..Len(u.gen.diags) : u.gen.diags[x][1] = kind}}
JudgeDiag(sc, u) ==
  LET G == sc.grammar
      strict == u.opt \in {"t", "it", "st", "ist"}
      und == DiagSet(u, "undefined") unu == DiagSet(u, "unused") lr == DiagSet(u, "leftrec") dup == DiagSet(u, "duplicate")
      judgeLR == Undefined(G) = {} /\ Duplicates(G) = {}      \* otherwise "re-enter without consuming" is not well defined
  IN
  If(u.gen.timeout \/ u.gen.exit \notin {0, 1}, GenMis(u, "C15", "generator-crash", "exit 0 or 1", <<u.gen.exit, u.gen.stderr>>)) \o
  IF Duplicates(G) # {}
  THEN \* a duplicate definition is diagnosed; generation may stop there, so nothing else is required
       If(dup = {} \/ ~(dup \subseteq Duplicates(G)), GenMis(u, "C15", "duplicate-definition", Duplicates(G), dup)) \o
       If(strict /\ u.gen.exit = 0, GenMis(u, "C15", "strict-exit", TRUE, u.gen.exit)) \o
       If(u.gen.exit = 0 /\ ~u.gen.hasout, GenMis(u, "C18", "exit0-no-output", TRUE, FALSE))
  ELSE
  If(und # Undefined(G), GenMis(u, "C15", "used-but-not-defined", Undefined(G), und)) \o
  If(unu # Unused(G), GenMis(u, "C15", "defined-but-not-used", Unused(G), unu)) \o
  If(judgeLR /\ ((lr # {}) # (LeftRec(G) # {})), GenMis(u, "C15", "left-recursion-presence", LeftRec(G), lr)) \o
  \* (the walk continues after a rule that is itself left recursive, so further rules may be named too;
  \* the property fixes when the diagnostic appears, and we require one named rule to be a culprit)
  If(judgeLR /\ lr # {} /\ lr \cap LeftRec(G) = {}, GenMis(u, "C15", "left-recursion-rule", LeftRec(G), lr)) \o
  If(dup # Duplicates(G), GenMis(u, "C15", "duplicate-definition", Duplicates(G), dup)) \o
  If(strict /\ ((u.gen.exit # 0) # HasDiagnostics(G)), GenMis(u, "C15", "strict-exit", HasDiagnostics(G), u.gen.exit)) \o
  If(~strict /\ u.gen.exit # 0, GenMis(u, "C15", "non-strict-exit", 0, <<u.gen.exit, u.gen.stderr>>)) \o
  If(~HasDiagnostics(G) /\ u.gen.stderr # "", GenMis(u, "C15", "silent", "", u.gen.stderr)) \o
  If(u.gen.exit = 0 /\ ~u.gen.hasout, GenMis(u, "C18", "exit0-no-output", TRUE, FALSE)) \o
  If(u.gen.exit = 0 /\ u.gen.hasout /\ ~u.gen.compiles /\ LeftRec(G) = {} , GenMis(u, "C08", "compiles", TRUE, u.gen.msg))

\* conformance of the emitted call sites with the transcription of CheckAlwaysSucceeds (AlwaysSucceeds.tla):
\* judged where the rule tree the test sees is the grammar as written (no -switch rewrite); with -inline the
\* calls of rules referenced once disappear, so only inclusion is compared there.  A difference is
\* conformance drift of the transcription, not a violation (a more precise test breaks no property).
CasJudged(sc, u) == sc.family \notin {"diag", "stress", "syntax"} /\ Len(sc.grammar.rules) > 0 /\ u.gen.hasout /\ u.opt \in {"", "i", "n", "in"}
CasDrift(sc, B, u) ==
  /\ CasJudged(sc, u)
  /\ LET first == sc.grammar.rules[1].name
         eu == Unguarded(B, first) eg == Guarded(B, first)
         \* (an action is emitted as a call of an implicit rule ActionN whose verdict is never tested)
         ou == {x \in ToSet(u.gen.unguarded) : ~IsActName(x)} og == ToSet(u.gen.guarded)
     IN IF u.opt \in {"", "n"} THEN ou # eu \/ og # eg ELSE ~(ou \subseteq eu /\ og \subseteq eg)

RECURSIVE JudgeUnits(_, _, _, _, _)
JudgeUnits(sc, B, units, du, k) ==
  IF k > Len(units) THEN <<>>
  ELSE LET u == units[k] IN
       (IF sc.family = "diag" THEN JudgeDiag(sc, u) ELSE JudgeGen(sc, u) \o JudgeRuns(sc, B, units, du, u, 1)) \o
       <<[kind |-> "stat", opt |-> u.opt, runs |-> Len(u.runs), hasdiag |-> (sc.family = "diag" /\ HasDiagnostics(sc.grammar)), compiled |-> u.gen.compiles, nswitch |-> u.gen.nswitch, nnil |-> u.gen.nnil,
          casjudged |-> CasJudged(sc, u), casdrift |-> CasDrift(sc, B, u), casunguarded |-> Len(u.gen.unguarded),
          memooff |-> Cardinality({j \in 1..Len(u.runs) : ~sc.plan[u.runs[j].c].memo}),
          hist |-> Cardinality({j \in 1..Len(u.runs) : u.runs[j].h > 0}), multi |-> Cardinality({j \in 1..Len(u.runs) : u.runs[j].h < 0}),
          accepted |-> Cardinality({j \in 1..Len(u.runs) : u.runs[j].ok}),
          nontrivial |-> Cardinality({j \in 1..Len(u.runs) : (u.runs[j].ok /\ Has(u.runs[j], "tk") /\ Len(u.runs[j].tk) >= 2)
                                                              \/ (~u.runs[j].ok /\ u.runs[j].et[3] > 0)})]>>
       \o JudgeUnits(sc, B, units, du, k + 1)

JudgeRec(rec) ==
  LET sc == rec.sc
      B == IF sc.family = "diag" THEN <<>> ELSE BodyMap(Core(sc.grammar))
      D == {k \in 1..Len(rec.units) : rec.units[k].opt = ""}
      du == IF D = {} THEN <<>> ELSE <<rec.units[CHOOSE k \in D : TRUE]>>
      out == JudgeUnits(sc, B, rec.units, du, 1)
  IN [k \in 1..Len(out) |-> [id |-> sc.id] @@ out[k]]

RECURSIVE JudgeSeq(_, _)
JudgeSeq(recs, n) == IF n > Len(recs) THEN <<>> ELSE JudgeRec(recs[n]) \o JudgeSeq(recs, n + 1)
JudgeChunk(c) == JudgeSeq(RecsOf(c), 1)

VARIABLES chunk, done
Init == chunk \in 1..CHUNKS /\ done = FALSE
Next == /\ ~done
        /\ done' = TRUE
        /\ chunk' = chunk
        /\ ndJsonSerialize(OUTDIR \o "/verdict_" \o ToString(chunk) \o ".ndjson", JudgeChunk(chunk))
Spec == Init /\ [][Next]_<<chunk, done>>
=============================================================================
