------------------------------- MODULE PegSem -------------------------------
(***************************************************************************)
(* The requirement: denotational PEG semantics of a (desugared) grammar,   *)
(* syntactic well-formedness, and the derived observables the properties   *)
(* C01..C07, C11..C13 talk about (tokens, actions, furthest token).        *)
(***************************************************************************)
EXTENDS PegSyntax

(* ---------- well-formedness (Ford, syntactic) ---------------------------- *)
\* NullE(e, N): e may succeed without consuming, given the set N of nullable rules
RECURSIVE NullE(_, _), NullAll(_, _, _), NullAny(_, _, _)
NullAll(es, i, N) == i > Len(es) \/ (NullE(es[i], N) /\ NullAll(es, i + 1, N))
NullAny(es, i, N) == i <= Len(es) /\ (NullE(es[i], N) \/ NullAny(es, i + 1, N))
NullE(e, N) ==
  CASE e.op \in {"chr", "dot", "rng"} -> FALSE
    [] e.op \in {"nil", "act", "pred", "chg", "opt", "star", "and", "not"} -> TRUE
    [] e.op = "ref" -> e.r \in N
    [] e.op \in {"plus", "cap"} -> NullE(e.a, N)
    [] e.op = "seq" -> NullAll(e.es, 1, N)
    [] e.op = "alt" -> NullAny(e.es, 1, N)

RECURSIVE NullFix(_, _)
NullFix(B, N) ==
  LET N2 == {r \in DOMAIN B : NullE(B[r], N)} IN IF N2 = N THEN N ELSE NullFix(B, N2)
Nullable(B) == NullFix(B, {})

\* rules that can be called at the position where e starts (through every operator)
RECURSIVE LeftCalls(_, _), LeftSeq(_, _, _), LeftAlt(_, _, _)
LeftSeq(es, i, N) ==
  IF i > Len(es) THEN {}
  ELSE LeftCalls(es[i], N) \cup (IF NullE(es[i], N) THEN LeftSeq(es, i + 1, N) ELSE {})
LeftAlt(es, i, N) == IF i > Len(es) THEN {} ELSE LeftCalls(es[i], N) \cup LeftAlt(es, i + 1, N)
LeftCalls(e, N) ==
  CASE e.op = "ref" -> {e.r}
    [] e.op \in UnaryOps -> LeftCalls(e.a, N)
    [] e.op = "seq" -> LeftSeq(e.es, 1, N)
    [] e.op = "alt" -> LeftAlt(e.es, 1, N)
    [] OTHER -> {}

RECURSIVE Closure(_, _)
Closure(Step, S) == LET S2 == S \cup UNION {Step[r] : r \in S} IN IF S2 = S THEN S ELSE Closure(Step, S2)

\* rules that can re-enter themselves without having consumed input
LeftRecursive(B) ==
  LET N == Nullable(B)
      Step == [r \in DOMAIN B |-> LeftCalls(B[r], N) \cap DOMAIN B]
  IN {r \in DOMAIN B : r \in Closure(Step, Step[r])}

\* no repetition of an expression that can match empty
RECURSIVE RepOK(_, _), RepOKL(_, _, _)
RepOKL(es, i, N) == i > Len(es) \/ (RepOK(es[i], N) /\ RepOKL(es, i + 1, N))
RepOK(e, N) ==
  CASE e.op \in {"star", "plus"} -> ~NullE(e.a, N) /\ RepOK(e.a, N)
    [] e.op \in UnaryOps -> RepOK(e.a, N)
    [] e.op \in ListOps -> RepOKL(e.es, 1, N)
    [] OTHER -> TRUE

UndefinedRefs(B) == (UNION {Refs(B[r]) : r \in DOMAIN B}) \ DOMAIN B
ReachStep(B) == [r \in DOMAIN B |-> Refs(B[r]) \cap DOMAIN B]
Reachable(B, first) == Closure(ReachStep(B), {first})

\* B: body map of a *desugared* grammar
WFB(B) == /\ UndefinedRefs(B) = {}
          /\ LeftRecursive(B) = {}
          /\ \A r \in DOMAIN B : RepOK(B[r], Nullable(B))

(* ---------- evaluation --------------------------------------------------- *)
\* offsets are 0-based rune offsets; w is a sequence of code points
\* result: ok, pos (offset after the match), toks (post-order tokens of the successful
\* derivation, <<rule, begin, end>>), adds (every token ever added, in execution order,
\* including those later backtracked)
OkR(p, toks, adds) == [ok |-> TRUE, pos |-> p, toks |-> toks, adds |-> adds]
KoR(adds) == [ok |-> FALSE, pos |-> 0, toks |-> <<>>, adds |-> adds]

RECURSIVE Eval(_, _, _, _), EvalSeq(_, _, _, _, _, _, _), EvalAlt(_, _, _, _, _, _), EvalStar(_, _, _, _, _, _)
Eval(B, w, e, i) ==
  CASE e.op = "chr" -> IF i < Len(w) /\ w[i + 1] = e.c THEN OkR(i + 1, <<>>, <<>>) ELSE KoR(<<>>)
    [] e.op = "dot" -> IF i < Len(w) THEN OkR(i + 1, <<>>, <<>>) ELSE KoR(<<>>)
    [] e.op = "rng" -> IF i < Len(w) /\ w[i + 1] >= e.lo /\ w[i + 1] <= e.hi THEN OkR(i + 1, <<>>, <<>>) ELSE KoR(<<>>)
    [] e.op = "nil" -> OkR(i, <<>>, <<>>)
    [] e.op = "chg" -> OkR(i, <<>>, <<>>)
    [] e.op = "pred" -> IF e.v THEN OkR(i, <<>>, <<>>) ELSE KoR(<<>>)
    [] e.op = "act" -> LET t == <<ActName(e.k), i, i>> IN OkR(i, <<t>>, <<t>>)
    [] e.op = "ref" -> LET r == Eval(B, w, B[e.r], i) IN
                       IF r.ok THEN LET t == <<e.r, i, r.pos>> IN OkR(r.pos, Append(r.toks, t), Append(r.adds, t))
                       ELSE KoR(r.adds)
    [] e.op = "cap" -> LET r == Eval(B, w, e.a, i) IN
                       IF r.ok THEN LET t == <<"PegText", i, r.pos>> IN OkR(r.pos, Append(r.toks, t), Append(r.adds, t))
                       ELSE KoR(r.adds)
    [] e.op = "and" -> LET r == Eval(B, w, e.a, i) IN IF r.ok THEN OkR(i, <<>>, r.adds) ELSE KoR(r.adds)
    [] e.op = "not" -> LET r == Eval(B, w, e.a, i) IN IF r.ok THEN KoR(r.adds) ELSE OkR(i, <<>>, r.adds)
    [] e.op = "opt" -> LET r == Eval(B, w, e.a, i) IN IF r.ok THEN r ELSE OkR(i, <<>>, r.adds)
    [] e.op = "star" -> EvalStar(B, w, e.a, i, <<>>, <<>>)
    [] e.op = "plus" -> LET r == Eval(B, w, e.a, i) IN
                        IF r.ok THEN EvalStar(B, w, e.a, r.pos, r.toks, r.adds) ELSE r
    [] e.op = "seq" -> EvalSeq(B, w, e.es, 1, i, <<>>, <<>>)
    [] e.op = "alt" -> EvalAlt(B, w, e.es, 1, i, <<>>)
EvalSeq(B, w, es, k, i, toks, adds) ==
  IF k > Len(es) THEN OkR(i, toks, adds)
  ELSE LET r == Eval(B, w, es[k], i) IN
       IF r.ok THEN EvalSeq(B, w, es, k + 1, r.pos, toks \o r.toks, adds \o r.adds)
       ELSE KoR(adds \o r.adds)
EvalAlt(B, w, es, k, i, adds) ==
  IF k > Len(es) THEN KoR(adds)
  ELSE LET r == Eval(B, w, es[k], i) IN
       IF r.ok THEN OkR(r.pos, r.toks, adds \o r.adds) ELSE EvalAlt(B, w, es, k + 1, i, adds \o r.adds)
\* greedy, possessive; an iteration that does not advance ends the loop (cannot happen under WF)
EvalStar(B, w, a, i, toks, adds) ==
  LET r == Eval(B, w, a, i) IN
  IF r.ok /\ r.pos > i THEN EvalStar(B, w, a, r.pos, toks \o r.toks, adds \o r.adds)
  ELSE IF r.ok THEN OkR(r.pos, toks \o r.toks, adds \o r.adds)
  ELSE OkR(i, toks, adds \o r.adds)

Parse(B, w, entry) == Eval(B, w, Ref(entry), 0)

(* ---------- derived observables ------------------------------------------ *)
ZeroTok == <<"Unknown", 0, 0>>
RECURSIVE ErrTokFrom(_, _, _)
ErrTokFrom(adds, i, mt) ==
  IF i > Len(adds) THEN mt
  ELSE LET t == adds[i] IN ErrTokFrom(adds, i + 1, IF t[2] # t[3] /\ t[3] > mt[3] THEN t ELSE mt)
\* the first non-empty token that reached the furthest offset during the attempt
ErrTok(adds) == ErrTokFrom(adds, 1, ZeroTok)

\* action trace of Execute(): <<k, begin, end>> of the most recently completed capture
RECURSIVE ExecFrom(_, _, _, _)
IsActName(n) == \E k \in 0..63 : n = ActName(k)
ActIndex(n) == CHOOSE k \in 0..63 : n = ActName(k)
ExecFrom(toks, i, b, e) ==
  IF i > Len(toks) THEN <<>>
  ELSE LET t == toks[i] IN
       IF t[1] = "PegText" THEN ExecFrom(toks, i + 1, t[2], t[3])
       ELSE IF IsActName(t[1]) THEN <<<<ActIndex(t[1]), b, e>>>> \o ExecFrom(toks, i + 1, b, e)
       ELSE ExecFrom(toks, i + 1, b, e)
ExecLog(toks) == ExecFrom(toks, 1, 0, 0)

\* -noast: actions run inline when reached; text is the most recently completed capture in
\* execution order (nothing is undone on backtracking).  adds is exactly that event stream.
RECURSIVE NoAstFrom(_, _, _, _)
NoAstFrom(adds, w, i, text) ==
  IF i > Len(adds) THEN <<>>
  ELSE LET t == adds[i] IN
       IF t[1] = "PegText" THEN NoAstFrom(adds, w, i + 1, SubSeq(w, t[2] + 1, t[3]))
       ELSE IF IsActName(t[1]) THEN <<<<ActIndex(t[1]), text>>>> \o NoAstFrom(adds, w, i + 1, text)
       ELSE NoAstFrom(adds, w, i + 1, text)
NoAstLog(adds, w) == NoAstFrom(adds, w, 1, <<>>)

RECURSIVE IsSubseq(_, _, _, _)
IsSubseq(a, i, b, j) ==   \* a[i..] is a subsequence of b[j..]
  IF i > Len(a) THEN TRUE
  ELSE IF j > Len(b) THEN FALSE
  ELSE IF a[i] = b[j] THEN IsSubseq(a, i + 1, b, j + 1) ELSE IsSubseq(a, i, b, j + 1)

NonEmpty(toks) == SelectSeq(toks, LAMBDA t : t[2] # t[3])
=============================================================================
