SPECIFICATION Spec
CONSTANTS
  Variant = "code"
INVARIANT Sound
INVARIANT VariantOff
INVARIANT Lemmas
CHECK_DEADLOCK FALSE
