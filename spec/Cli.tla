--------------------------------- MODULE Cli ---------------------------------
(***************************************************************************)
(* The peg command (main.go) as a step machine, checked against the        *)
(* requirement of CliReqs for every scenario (MC_Cli.cfg).                 *)
(***************************************************************************)
EXTENDS CliReqs

(* ---------- main.go as coded ------------------------------------------------ *)
VARIABLES sc, pc, dst, exit, err, warned
vars == <<sc, pc, dst, exit, err, warned>>

Init == sc \in Scenarios /\ pc = "openin" /\ exit = -1 /\ err = FALSE /\ warned = FALSE
        /\ dst = IF sc.pre = "longer" /\ DestKind(sc) = "file" THEN "old" ELSE "absent"
Fail == pc' = "report" /\ err' = TRUE
OpenIn ==   \* getIO: os.Open of the argument (a directory opens fine), or standard input
  /\ pc = "openin"
  /\ IF sc.src = "missing" THEN Fail /\ UNCHANGED dst ELSE pc' = "openout" /\ UNCHANGED <<dst, err>>
  /\ UNCHANGED <<sc, exit, warned>>
OpenOut ==  \* getIO: os.OpenFile(O_RDWR|O_CREATE|O_TRUNC) before anything is read
  /\ pc = "openout"
  /\ CASE DestKind(sc) = "unopenable" -> Fail /\ UNCHANGED dst
       [] DestKind(sc) = "file" -> pc' = "read" /\ dst' = "empty" /\ UNCHANGED err
       [] OTHER -> pc' = "read" /\ UNCHANGED <<dst, err>>
  /\ UNCHANGED <<sc, exit, warned>>
Read ==     \* io.ReadAll
  /\ pc = "read"
  /\ IF sc.src = "directory" THEN Fail ELSE pc' = "parse" /\ UNCHANGED err
  /\ UNCHANGED <<sc, dst, exit, warned>>
Parse ==    \* p.Parse of the grammar text
  /\ pc = "parse"
  /\ IF TextOK(sc) THEN pc' = "compile" /\ UNCHANGED err ELSE Fail
  /\ UNCHANGED <<sc, dst, exit, warned>>
Compile ==  \* analyses, emission, warnings, write
  /\ pc = "compile"
  /\ IF sc.text = "warned" /\ sc.strict THEN Fail /\ UNCHANGED <<dst, warned>>
     ELSE /\ warned' = (sc.text = "warned")
          /\ IF DestKind(sc) = "devfull" THEN Fail /\ UNCHANGED dst
             ELSE pc' = "report" /\ UNCHANGED err /\ dst' = IF DestKind(sc) = "file" THEN "complete" ELSE dst
  /\ UNCHANGED <<sc, exit>>
Report ==   \* main: error => message and exit 1 (log.Fatal with -strict); otherwise exit 0
  /\ pc = "report" /\ pc' = "done" /\ exit' = IF err THEN 1 ELSE 0
  /\ UNCHANGED <<sc, dst, err, warned>>
Next == OpenIn \/ OpenOut \/ Read \/ Parse \/ Compile \/ Report
Spec == Init /\ [][Next]_vars

\* what the machine delivers, in the vocabulary of the requirement
ModelObs == [exit |-> exit, stderr |-> (err \/ warned),
             dest |-> IF DestKind(sc) = "stdout" THEN (IF err THEN "empty" ELSE "complete")
                      ELSE IF DestKind(sc) = "file" THEN (IF dst = "old" THEN "other" ELSE dst) ELSE "absent"]
DesignMeetsReq == pc = "done" => CliReq(sc, ModelObs)
=============================================================================
