---------------------------- MODULE IntervalSet ----------------------------
(***************************************************************************)
(* The set package (set/set.go).                                           *)
(*  - abstract layer: registers hold finite sets of naturals; this is the  *)
(*    requirement (C16) and the only oracle used against the code;         *)
(*  - concrete layer: a sorted list of intervals with the insertion of     *)
(*    AddRange transcribed case by case (Head/Tail sentinels included), the *)
(*    observers as coded, and the refinement mapping Abs.                  *)
(* TLC checks (MC_Set.cfg) that the concrete layer refines the abstract    *)
(* one and which coded observers agree with their abstract meaning.        *)
(***************************************************************************)
EXTENDS Integers, Sequences, FiniteSets, TLC

CONSTANTS U,        \* elements are 0..U
          MAXOPS    \* bound on history length for model checking

MaxInt32 == 2147483647
Ranges == {<<b, e>> \in (0..U) \X (0..U) : b <= e}

(* ---------- concrete layer ------------------------------------------------ *)
\* l: sequence of <<begin, end>>.  Positions: 0 = Head, 1..n = nodes, n+1 = Tail.
EndOf(l, i) == IF i >= 1 /\ i <= Len(l) THEN l[i][2] ELSE 0               \* Head.End = Tail.End = 0
BeginOf(l, i) == IF i = 0 THEN MaxInt32 ELSE IF i <= Len(l) THEN l[i][1] ELSE 0
HasFwd(l, i) == Len(l) > 0 /\ i <= Len(l)          \* Head.Forward is nil iff the set is empty; Tail.Forward is nil
HasBwd(l, j) == Len(l) > 0 /\ j >= 1

RECURSIVE WalkF(_, _, _), WalkB(_, _, _)
WalkF(l, x, i) == IF HasFwd(l, i) /\ x > EndOf(l, i + 1) THEN WalkF(l, x, i + 1) ELSE i
WalkB(l, x, j) == IF HasBwd(l, j) /\ x < BeginOf(l, j - 1) THEN WalkB(l, x, j - 1) ELSE j

Min(a, b) == IF a < b THEN a ELSE b
Max(a, b) == IF a > b THEN a ELSE b
InsertAfter(l, i, n) == SubSeq(l, 1, i) \o <<n>> \o SubSeq(l, i + 1, Len(l))

\* which of the seven branches of AddRange is taken (set.go 86-146)
AddCase(l, b, e) ==
  LET i == WalkF(l, b, 0)
      j == WalkB(l, e, Len(l) + 1)
  IN CASE ~HasFwd(l, i) /\ ~HasBwd(l, j) -> 1
       [] HasFwd(l, i) /\ HasBwd(l, j) /\ i + 1 = j - 1 -> 2
       [] HasFwd(l, i) /\ ~HasBwd(l, j) -> 3
       [] ~HasFwd(l, i) /\ HasBwd(l, j) -> 4
       [] HasFwd(l, i) /\ i + 1 = j -> 5
       [] HasBwd(l, j) /\ i = j - 1 -> 6
       [] OTHER -> 7
AddRangeList(l, b, e) ==
  LET i == WalkF(l, b, 0)
      j == WalkB(l, e, Len(l) + 1)
      c == AddCase(l, b, e)
  IN CASE c = 1 -> <<<<b, e>>>>
       [] c = 2 -> [l EXCEPT ![i + 1] = <<Min(b, l[i + 1][1]), Max(e, l[i + 1][2])>>]
       [] c = 3 -> InsertAfter(l, i, <<b, e>>)           \* after beginNode
       [] c = 4 -> InsertAfter(l, j - 1, <<b, e>>)       \* before endNode
       [] c = 5 -> InsertAfter(l, i, <<b, e>>)
       [] c = 6 -> InsertAfter(l, j - 1, <<b, e>>)
       [] c = 7 -> SubSeq(l, 1, i) \o <<<<Min(b, l[i + 1][1]), Max(e, l[j - 1][2])>>>> \o SubSeq(l, j, Len(l))

Abs(l) == UNION {l[k][1]..l[k][2] : k \in 1..Len(l)}
Sorted(l) == \A k \in 1..(Len(l) - 1) : l[k][2] < l[k + 1][1]
WellFormedList(l) == Sorted(l) /\ \A k \in 1..Len(l) : l[k][1] <= l[k][2]

HasCoded(l, x) == LET i == WalkF(l, x, 0) IN IF ~HasFwd(l, i) THEN FALSE ELSE x >= BeginOf(l, i + 1)
RECURSIVE LenFrom(_, _)
LenFrom(l, k) == IF k > Len(l) THEN 0 ELSE l[k][2] - l[k][1] + 1 + LenFrom(l, k + 1)
LenCoded(l) == LenFrom(l, 1)
In(x, n) == x >= n[1] /\ x <= n[2]
HalfIntersects(a, b) == \E x \in 1..Len(a), y \in 1..Len(b) : In(b[y][1], a[x]) \/ In(b[y][2], a[x])
IntersectsCoded(a, b) == Len(a) > 0 /\ Len(b) > 0 /\ (HalfIntersects(a, b) \/ HalfIntersects(b, a))
\* Equal compares the maximal runs of consecutive members (set.go spans/Equal)
RECURSIVE SpansFrom(_, _, _)
SpansFrom(l, k, runs) ==
  IF k > Len(l) THEN runs
  ELSE IF runs # <<>> /\ runs[Len(runs)][2] + 1 = l[k][1]
       THEN SpansFrom(l, k + 1, [runs EXCEPT ![Len(runs)] = <<runs[Len(runs)][1], l[k][2]>>])
       ELSE SpansFrom(l, k + 1, Append(runs, l[k]))
Spans(l) == SpansFrom(l, 1, <<>>)
EqualCoded(a, b) == Spans(a) = Spans(b)
UnionList(a, b) ==
  LET RECURSIVE F(_, _)
      F(acc, k) == IF k > Len(b) THEN acc ELSE F(AddRangeList(acc, b[k][1], b[k][2]), k + 1)
  IN F(a, 1)
\* Complement as coded (set.go Complement)
ComplementCoded(l, lim) ==
  IF LenCoded(l) = 0 THEN <<<<0, lim>>>>
  ELSE IF l[1][1] = 0 /\ l[1][2] = lim THEN <<>>
  ELSE LET RECURSIVE G(_, _, _, _)
           G(k, pre, covered, acc) ==
             IF k > Len(l) THEN [pre |-> pre, covered |-> covered, acc |-> acc]
             ELSE G(k + 1, IF l[k][2] >= lim THEN pre ELSE l[k][2] + 1, covered \/ l[k][2] >= lim,
                    IF pre < l[k][1] THEN Append(acc, <<pre, l[k][1] - 1>>) ELSE acc)
           r == G(1, 0, FALSE, <<>>)
       IN IF ~r.covered THEN Append(r.acc, <<r.pre, lim>>) ELSE r.acc

(* ---------- abstract layer: the requirement -------------------------------- *)
ComplementAbs(S, lim) == (0..lim) \ S

(* ---------- model checking the design -------------------------------------- *)
VARIABLES r1, r2, n
vars == <<r1, r2, n>>
Init == r1 = <<>> /\ r2 = <<>> /\ n = 0
Add1 == \E rg \in Ranges : r1' = AddRangeList(r1, rg[1], rg[2]) /\ UNCHANGED r2
Add2 == \E rg \in Ranges : r2' = AddRangeList(r2, rg[1], rg[2]) /\ UNCHANGED r1
Uni == r1' = UnionList(r1, r2) /\ UNCHANGED r2
Cmp == r2' = ComplementCoded(r1, U) /\ UNCHANGED r1
Next == n < MAXOPS /\ n' = n + 1 /\ (Add1 \/ Add2 \/ Uni \/ Cmp)
Spec == Init /\ [][Next]_vars

\* refinement: every insertion is set union, lists stay sorted and disjoint
Refines == [][ (\A rg \in Ranges : (r1' = AddRangeList(r1, rg[1], rg[2])) => Abs(r1') = Abs(r1) \cup (rg[1]..rg[2])) ]_vars
InsertRefinesUnion == \A rg \in Ranges : Abs(AddRangeList(r1, rg[1], rg[2])) = Abs(r1) \cup (rg[1]..rg[2])
                                         /\ WellFormedList(AddRangeList(r1, rg[1], rg[2]))
ListsWellFormed == WellFormedList(r1) /\ WellFormedList(r2)
HasOK == \A x \in 0..(U + 1) : HasCoded(r1, x) = (x \in Abs(r1))
LenOK == LenCoded(r1) = Cardinality(Abs(r1))
IntersectsOK == IntersectsCoded(r1, r2) = (Abs(r1) \cap Abs(r2) # {})
UnionOK == Abs(UnionList(r1, r2)) = Abs(r1) \cup Abs(r2) /\ WellFormedList(UnionList(r1, r2))
Case6Unreachable == \A rg \in Ranges : AddCase(r1, rg[1], rg[2]) # 6
\* (on the pinned tree these two were refuted by TLC with the histories of F16-2 and F16-3, and
\* ListsWellFormed by the inverted interval Complement produced; the transcription now follows the repaired code)
EqualOK == EqualCoded(r1, r2) = (Abs(r1) = Abs(r2))
ComplementOK == Abs(ComplementCoded(r1, U)) = ComplementAbs(Abs(r1), U)
=============================================================================
