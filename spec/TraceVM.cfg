SPECIFICATION Spec
INVARIANTS
  AgreeInv
  TokensLiveInv
  MemoConsistentInv
  FurthestInv
CHECK_DEADLOCK FALSE
