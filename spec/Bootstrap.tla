------------------------------ MODULE Bootstrap ------------------------------
(***************************************************************************)
(* C17: the bootstrap chain and self-regeneration as a fixed point.        *)
(* A front end is a function from grammar text and options to generated    *)
(* code; generated code that is itself a front end can be run.  The chain  *)
(*   stage0 = hand-built tree (bootstrap/main.go)                          *)
(*   stage k+1 = Run(stage k)(grammar k+1, options k+1)                    *)
(* over the grammars bootstrap.peg, peg.bootstrap.peg, peg.peg (x4) must   *)
(* end in the checked-in peg.peg.go, and every front end regenerated from  *)
(* peg.peg under an option set must behave like the checked-in one.        *)
(* File contents are abstracted to identifiers; Behaves(f) is the          *)
(* observable behaviour class of front end f.  The conformance check       *)
(* (JudgeBoot) instantiates these with digests and recorded behaviour.     *)
(***************************************************************************)
EXTENDS Integers, Sequences, FiniteSets, TLC

CONSTANTS CheckedIn,      \* identifier of the checked-in peg.peg.go
          Stages,         \* number of generations in the chain (6)
          Gen(_, _)       \* Gen(frontEnd, k): what front end frontEnd generates at stage k

VARIABLES stage, k
Init == stage = "hand-built" /\ k = 0
Step == k < Stages /\ stage' = Gen(stage, k + 1) /\ k' = k + 1
Spec == Init /\ [][Step]_<<stage, k>>
Converges == k = Stages => stage = CheckedIn

\* conformance-level statement used by JudgeBoot: given the recorded observations
ChainOK(o) == o.rc = 0 /\ o.equal
\* every variant front end shows the same result as the checked-in one on every text
SameAsCheckedIn(ref, var) == ref.ok = var.ok /\ ref.panic = var.panic /\ ref.rules = var.rules /\ ref.imports = var.imports /\ ref.out = var.out
=============================================================================
