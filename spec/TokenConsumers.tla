--------------------------- MODULE TokenConsumers ---------------------------
(***************************************************************************)
(* What consumes the token stream: AST(), the syntax-tree printers,        *)
(* Execute() and the error message.  For each, the requirement (stated     *)
(* declaratively) and a transcription of the algorithm in                  *)
(* tree/peg.go.tmpl ("AsCoded"), so that TLC can compare the two (L0).     *)
(* Only the requirement is used as oracle for the code.                    *)
(***************************************************************************)
EXTENDS PegSem, SequencesExt

(* ---------- derivation tree from the post-order token list --------------- *)
Covers(p, c) == p[2] <= c[2] /\ c[3] <= p[3]
\* NE: non-empty tokens in post-order.  k is an ancestor of j iff it comes later and contains it
\* (siblings have disjoint non-empty spans).
IsAnc(NE, k, j) == k > j /\ Covers(NE[k], NE[j])
Depth(NE, j) == Cardinality({k \in 1..Len(NE) : IsAnc(NE, k, j)})
\* pre-order: ancestors first, otherwise left to right
Before(NE, x, y) == IsAnc(NE, x, y) \/ (~IsAnc(NE, y, x) /\ NE[x][3] <= NE[y][2])
PreOrderIdx(NE) == SortSeq([i \in 1..Len(NE) |-> i], LAMBDA x, y : Before(NE, x, y))
\* the requirement for AST(): <<depth, rule, begin, end>> per node in pre-order
DerivTree(toks) ==
  LET NE == NonEmpty(toks)
      P == PreOrderIdx(NE)
  IN [i \in 1..Len(NE) |-> <<Depth(NE, P[i]), NE[P[i]][1], NE[P[i]][2], NE[P[i]][3]>>]
\* the requirement for the printers: <<depth, rule, spanned text>>
PrintLines(toks, w) ==
  LET T == DerivTree(toks) IN [i \in 1..Len(T) |-> <<T[i][1], T[i][2], SubSeq(w, T[i][3] + 1, T[i][4])>>]

(* ---------- AST() as coded (tmpl 95-118) ---------------------------------- *)
\* a node is [t |-> token, kids |-> sequence of nodes (left to right)]
RECURSIVE PopKids(_, _, _)
\* pop while the stack top is contained in tok; popped nodes become children, leftmost first
PopKids(stack, tok, kids) ==
  IF stack # <<>> /\ Head(stack).t[2] >= tok[2] /\ Head(stack).t[3] <= tok[3]
  THEN PopKids(Tail(stack), tok, <<Head(stack)>> \o kids)
  ELSE [stack |-> stack, kids |-> kids]
RECURSIVE AstStack(_, _, _)
AstStack(toks, i, stack) ==      \* stack: head = top
  IF i > Len(toks) THEN stack
  ELSE LET tok == toks[i] IN
       IF tok[2] = tok[3] THEN AstStack(toks, i + 1, stack)
       ELSE LET r == PopKids(stack, tok, <<>>) IN
            AstStack(toks, i + 1, <<[t |-> tok, kids |-> r.kids]>> \o r.stack)
RECURSIVE PreOrderOf(_, _), PreOrderKids(_, _, _)
PreOrderKids(kids, i, d) == IF i > Len(kids) THEN <<>> ELSE PreOrderOf(kids[i], d) \o PreOrderKids(kids, i + 1, d)
PreOrderOf(n, d) == <<<<d, n.t[1], n.t[2], n.t[3]>>>> \o PreOrderKids(n.kids, 1, d + 1)
\* AST() returns the top of the stack only
AstAsCoded(toks) ==
  LET st == AstStack(toks, 1, <<>>) IN IF st = <<>> THEN <<>> ELSE PreOrderOf(Head(st), 0)

(* ---------- Execute() as coded (tmpl 255-272) ------------------------------ *)
\* ExecLog (PegSem) is the transcription; the requirement is stated on the derivation:
\* the actions of the derivation in order, each with the last capture completed before it.
\* Both coincide by construction of the post-order; kept as one operator.
ExecWithText(toks, w) ==
  LET L == ExecLog(toks) IN [i \in 1..Len(L) |-> <<L[i][1], SubSeq(w, L[i][2] + 1, L[i][3]), L[i][2], L[i][3]>>]

(* ---------- error position ------------------------------------------------- *)
NL == 10
\* requirement: 1-based line and column of 0-based rune offset p
\* (p may equal Len(w): the position just after the last rune)
NLsBefore(w, p) == Cardinality({i \in 1..p : i <= Len(w) /\ w[i] = NL})
LastNLBefore(w, p) == LET S == {i \in 1..p : i <= Len(w) /\ w[i] = NL} IN IF S = {} THEN 0 ELSE CHOOSE i \in S : \A j \in S : j <= i
LineCol(w, p) == <<1 + NLsBefore(w, p), p - LastNLBefore(w, p) + 1>>

\* translatePositions as coded (tmpl 176-205), for the two positions begin and end;
\* buffer = w with the end sentinel appended
RECURSIVE TPLoop(_, _, _, _, _, _, _)
TPLoop(buf, i, line, sym, positions, posIdx, tr) ==   \* i: 0-based index into buf
  IF i >= Len(buf) THEN tr
  ELSE LET c == buf[i + 1]
           line2 == IF c = NL THEN line + 1 ELSE line
           sym2 == IF c = NL THEN 0 ELSE sym + 1
       IN IF posIdx <= Len(positions) /\ i = positions[posIdx]
          THEN LET tr2 == [tr EXCEPT ![positions[posIdx]] = <<line2, sym2>>] IN
               \* for posIdx++; posIdx < length; posIdx++ { if i == positions[posIdx] { return } }
               LET rest == {k \in (posIdx + 1)..Len(positions) : positions[k] = i} IN
               IF rest # {} THEN tr2
               ELSE tr2   \* posIdx has run to length: the loop breaks
          ELSE TPLoop(buf, i + 1, line2, sym2, positions, posIdx, tr)
LineColAsCoded(w, b, e) ==
  LET buf == Append(w, -1)
      positions == IF b <= e THEN <<b, e>> ELSE <<e, b>>
      tr == TPLoop(buf, 0, 1, 0, positions, 1, [p \in {b, e} |-> <<0, 0>>])
  IN <<tr[b], tr[e]>>

\* the message fields the property names
ErrorFields(w, tok) == [rule |-> tok[1], lc1 |-> LineCol(w, tok[2]), lc2 |-> LineCol(w, tok[3]),
                        quoted |-> SubSeq(w, tok[2] + 1, tok[3])]
=============================================================================
