SPECIFICATION Spec
CONSTANTS
  RewriteNullable = FALSE
  SkipThroughAll = FALSE
INVARIANT Sound
CHECK_DEADLOCK FALSE
