-------------------------------- MODULE PegVM --------------------------------
(***************************************************************************)
(* Small-step abstract machine shaped like the code peg emits with default *)
(* options (tree/peg.go compile(), tree/peg.go.tmpl Init closures): one    *)
(* action per emitted fragment, explicit save/restore of                   *)
(* (position, tokenIndex), token buffer with stale tail, furthest-token    *)
(* register, memo table, rule wrapper.  The requirement is PegSem!Eval;    *)
(* the invariants below relate the two (checked by TLC in MC_VM.cfg, and   *)
(* evaluated at every step of every validated trace in TraceVM).           *)
(*                                                                         *)
(* The module is parameterised by operators supplied by the extending      *)
(* module: Body(r) (desugared body of rule r), Input (sequence of code     *)
(* points), MemoOn, Entry.  They are functions of the scenario variables.  *)
(***************************************************************************)
EXTENDS PegSem

VARIABLES pos, tix, tree, maxTok, memo,     \* the closure variables of Init()
          stk, st, cur,                     \* control: frames, "eval" | "ok" | "ko" | "accept" | "reject", expression
          ev,                               \* hook events emitted by the step just taken (observation only)
          nhit, nadd                        \* counters (observation only)
mvars == <<pos, tix, tree, maxTok, memo, stk, st, cur, ev, nhit, nadd>>

\* rule bodies: user rules by name; an action is a rule with an empty body; PegText never is called
IsAct(e) == e.op = "act"

Top == stk[Len(stk)]
Pop == SubSeq(stk, 1, Len(stk) - 1)
Push(f) == Append(stk, f)
SetTop(f) == [stk EXCEPT ![Len(stk)] = f]

\* tokens.Add + the add closure (tmpl 132-141, 365-373)
AddTok(tr, ti, mt, rule, b, p) ==
  LET tok == <<rule, b, p>>
      tr2 == IF ti + 1 > Len(tr) THEN Append(tr, tok) ELSE [tr EXCEPT ![ti + 1] = tok]
      mt2 == IF b # p /\ p > mt[3] THEN tok ELSE mt
  IN [tree |-> tr2, tix |-> ti + 1, maxTok |-> mt2]

Sym(w) == IF pos + 1 <= Len(w) THEN w[pos + 1] ELSE -1      \* -1: the end sentinel

(* ---------- machine actions; each is a top-level disjunct of Step ---------------------- *)
\* terminals: compare buffer[position], advance or fail; the sentinel never matches
Match(ok) == /\ IF ok THEN pos' = pos + 1 /\ st' = "ok" ELSE pos' = pos /\ st' = "ko"
             /\ UNCHANGED <<tix, tree, maxTok, memo, stk, cur, nhit, nadd>> /\ ev' = <<>>
MatchChr(w) == st = "eval" /\ cur.op = "chr" /\ Match(Sym(w) = cur.c)
MatchRng(w) == st = "eval" /\ cur.op = "rng" /\ Match(Sym(w) # -1 /\ Sym(w) >= cur.lo /\ Sym(w) <= cur.hi)
MatchDot(w) == st = "eval" /\ cur.op = "dot" /\ Match(Sym(w) # -1)
Silent == UNCHANGED <<pos, tix, tree, maxTok, memo, nhit, nadd>> /\ ev' = <<>>
EvalNil  == st = "eval" /\ cur.op \in {"nil", "chg"} /\ st' = "ok" /\ UNCHANGED <<stk, cur>> /\ Silent
EvalPred == st = "eval" /\ cur.op = "pred" /\ st' = (IF cur.v THEN "ok" ELSE "ko") /\ UNCHANGED <<stk, cur>> /\ Silent

Descend(f, e) == stk' = Push(f) /\ cur' = e /\ st' = "eval"
Ret(r) == stk' = Pop /\ st' = r /\ UNCHANGED cur

\* sequence (L1140): every element has the same failure continuation
SeqEnter == st = "eval" /\ cur.op = "seq" /\ Descend([k |-> "seq", es |-> cur.es, i |-> 1], cur.es[1]) /\ Silent
SeqNext  == st = "ok" /\ stk # <<>> /\ Top.k = "seq" /\ Top.i < Len(Top.es)
            /\ stk' = SetTop([Top EXCEPT !.i = Top.i + 1]) /\ cur' = Top.es[Top.i + 1] /\ st' = "eval" /\ Silent
SeqOk    == st = "ok" /\ stk # <<>> /\ Top.k = "seq" /\ Top.i = Len(Top.es) /\ Ret("ok") /\ Silent
SeqKo    == st = "ko" /\ stk # <<>> /\ Top.k = "seq" /\ Ret("ko") /\ Silent

\* ordered choice (L1081): one save, restore before each next alternative, none after the last
AltSave  == st = "eval" /\ cur.op = "alt" /\ Descend([k |-> "alt", es |-> cur.es, i |-> 1, sp |-> pos, sx |-> tix], cur.es[1]) /\ Silent
AltOk    == st = "ok" /\ stk # <<>> /\ Top.k = "alt" /\ Ret("ok") /\ Silent
AltRetry == st = "ko" /\ stk # <<>> /\ Top.k = "alt" /\ Top.i < Len(Top.es)
            /\ pos' = Top.sp /\ tix' = Top.sx /\ stk' = SetTop([Top EXCEPT !.i = Top.i + 1]) /\ cur' = Top.es[Top.i + 1] /\ st' = "eval"
            /\ ev' = <<<<"restore", Top.sp, Top.sx>>>> /\ UNCHANGED <<tree, maxTok, memo, nhit, nadd>>
AltKo    == st = "ko" /\ stk # <<>> /\ Top.k = "alt" /\ Top.i = Len(Top.es) /\ Ret("ko") /\ Silent

\* optional (L1171)
OptSave == st = "eval" /\ cur.op = "opt" /\ Descend([k |-> "opt", sp |-> pos, sx |-> tix], cur.a) /\ Silent
OptOk   == st = "ok" /\ stk # <<>> /\ Top.k = "opt" /\ Ret("ok") /\ Silent
OptKo   == st = "ko" /\ stk # <<>> /\ Top.k = "opt" /\ pos' = Top.sp /\ tix' = Top.sx /\ Ret("ok")
           /\ ev' = <<<<"restore", Top.sp, Top.sx>>>> /\ UNCHANGED <<tree, maxTok, memo, nhit, nadd>>

\* repetition (L1187, L1203): a new save per iteration, restore on the failing one
StarSave  == st = "eval" /\ cur.op = "star" /\ Descend([k |-> "star", a |-> cur.a, sp |-> pos, sx |-> tix], cur.a) /\ Silent
StarAgain == st = "ok" /\ stk # <<>> /\ Top.k = "star" /\ stk' = SetTop([Top EXCEPT !.sp = pos, !.sx = tix]) /\ cur' = Top.a /\ st' = "eval" /\ Silent
StarOut   == st = "ko" /\ stk # <<>> /\ Top.k = "star" /\ pos' = Top.sp /\ tix' = Top.sx /\ Ret("ok")
             /\ ev' = <<<<"restore", Top.sp, Top.sx>>>> /\ UNCHANGED <<tree, maxTok, memo, nhit, nadd>>
PlusFirst == st = "eval" /\ cur.op = "plus" /\ Descend([k |-> "plus", a |-> cur.a], cur.a) /\ Silent
PlusLoop  == st = "ok" /\ stk # <<>> /\ Top.k = "plus" /\ stk' = SetTop([k |-> "star", a |-> Top.a, sp |-> pos, sx |-> tix]) /\ cur' = Top.a /\ st' = "eval" /\ Silent
PlusKo    == st = "ko" /\ stk # <<>> /\ Top.k = "plus" /\ Ret("ko") /\ Silent

\* lookahead (L1147, L1158): success of & restores; failure of & and success of ! leave the position
\* where it is (the enclosing failure continuation restores)
AndSave == st = "eval" /\ cur.op = "and" /\ Descend([k |-> "and", sp |-> pos, sx |-> tix], cur.a) /\ Silent
AndOk   == st = "ok" /\ stk # <<>> /\ Top.k = "and" /\ pos' = Top.sp /\ tix' = Top.sx /\ Ret("ok")
           /\ ev' = <<<<"restore", Top.sp, Top.sx>>>> /\ UNCHANGED <<tree, maxTok, memo, nhit, nadd>>
AndKo   == st = "ko" /\ stk # <<>> /\ Top.k = "and" /\ Ret("ko") /\ Silent
NotSave == st = "eval" /\ cur.op = "not" /\ Descend([k |-> "not", sp |-> pos, sx |-> tix], cur.a) /\ Silent
NotOk   == st = "ok" /\ stk # <<>> /\ Top.k = "not" /\ Ret("ko") /\ Silent
NotKo   == st = "ko" /\ stk # <<>> /\ Top.k = "not" /\ pos' = Top.sp /\ tix' = Top.sx /\ Ret("ok")
           /\ ev' = <<<<"restore", Top.sp, Top.sx>>>> /\ UNCHANGED <<tree, maxTok, memo, nhit, nadd>>

\* capture (L1051): add(rulePegText, position_k) after the operand
CapEnter == st = "eval" /\ cur.op = "cap" /\ Descend([k |-> "cap", sp |-> pos], cur.a) /\ Silent
CapAdd   == st = "ok" /\ stk # <<>> /\ Top.k = "cap"
            /\ LET a == AddTok(tree, tix, maxTok, "PegText", Top.sp, pos) IN
               tree' = a.tree /\ tix' = a.tix /\ maxTok' = a.maxTok /\ ev' = <<<<"add", "PegText", Top.sp, pos, a.tix>>>>
            /\ Ret("ok") /\ nadd' = nadd + 1 /\ UNCHANGED <<pos, memo, nhit>>
CapKo    == st = "ko" /\ stk # <<>> /\ Top.k = "cap" /\ Ret("ko") /\ Silent

\* -switch: a choice rewritten by the optimiser (Optimizer!UAlt) is a switch on buffer[position]: no save, no
\* restore, exactly one case runs and its outcome is the outcome of the choice.  The character that selected a
\* case is known to be accepted by the case's first mandatory terminal, which therefore skips its own test
\* (ParentDetect); the flag travels to the first element of sequences, into captures and into inlined rules, and
\* nowhere else; a character test of a case with several labels is kept (ParentMultipleKey).
SkipE(e, multi) == [op |-> "skip", e |-> e, multi |-> multi]
SwitchDispatch(w) ==
  /\ st = "eval" /\ cur.op = "ualt"
  /\ LET hit == {k \in 1..Len(cur.cases) : Sym(w) \in cur.cases[k].labels} IN
     cur' = IF hit = {} THEN cur.dflt
            ELSE LET k == CHOOSE k \in hit : \A j \in hit : k <= j IN SkipE(cur.cases[k].e, Cardinality(cur.cases[k].labels) > 1)
  /\ st' = "eval" /\ UNCHANGED stk /\ Silent
SkipTerminal(w) ==
  /\ st = "eval" /\ cur.op = "skip" /\ cur.e.op \in {"chr", "rng", "dot"}
  /\ Match(IF cur.e.op = "chr" /\ cur.multi THEN Sym(w) = cur.e.c ELSE TRUE)
SkipSeq ==
  /\ st = "eval" /\ cur.op = "skip" /\ cur.e.op = "seq"
  /\ LET first == SkipE(cur.e.es[1], cur.multi) IN
     Descend([k |-> "seq", es |-> [cur.e.es EXCEPT ![1] = first], i |-> 1], first)
  /\ Silent
SkipCap == st = "eval" /\ cur.op = "skip" /\ cur.e.op = "cap" /\ Descend([k |-> "cap", sp |-> pos], SkipE(cur.e.a, cur.multi)) /\ Silent
SkipInline(B, Inl) ==
  /\ st = "eval" /\ cur.op = "skip" /\ cur.e.op = "ref" /\ cur.e.r \in Inl
  /\ Descend([k |-> "inl", r |-> cur.e.r, sp |-> pos], SkipE(B[cur.e.r], cur.multi)) /\ Silent
SkipDrop(Inl) ==
  /\ st = "eval" /\ cur.op = "skip" /\ cur.e.op \notin {"chr", "rng", "dot", "seq", "cap"} /\ ~(cur.e.op = "ref" /\ cur.e.r \in Inl)
  /\ cur' = cur.e /\ st' = "eval" /\ UNCHANGED stk /\ Silent

\* rule call (L1298-1319, tmpl 376-402).  An action is a rule whose body is empty.
RuleOf(e) == IF IsAct(e) THEN ActName(e.k) ELSE e.r
IsCall(e) == e.op \in {"ref", "act"}
MemoHit(memoOn) ==
  /\ st = "eval" /\ IsCall(cur) /\ memoOn /\ <<RuleOf(cur), pos>> \in DOMAIN memo
  /\ LET m == memo[<<RuleOf(cur), pos>>] IN
     IF m.matched
     THEN LET tr2 == SubSeq(tree, 1, tix) \o m.partial          \* append(tree.tree[:tokenIndex], m.Partial...)
              t2 == tix + Len(m.partial)
              p2 == m.partial[Len(m.partial)][3]
              last == tr2[t2]
          IN /\ tree' = tr2 /\ tix' = t2 /\ pos' = p2 /\ st' = "ok"
             /\ maxTok' = IF last[2] # p2 /\ p2 > maxTok[3] THEN last ELSE maxTok
             /\ ev' = <<<<"enter", RuleOf(cur), pos, tix>>, <<"hit", 1, p2, t2, Len(m.partial)>>>>
     ELSE /\ st' = "ko" /\ UNCHANGED <<tree, tix, pos, maxTok>>
          /\ ev' = <<<<"enter", RuleOf(cur), pos, tix>>, <<"hit", 0, pos, tix, 0>>>>
  /\ nhit' = nhit + 1 /\ UNCHANGED <<memo, stk, cur, nadd>>
\* -inline (L1002): a rule referenced exactly once has no function of its own: no enter, memo check, store, exit,
\* and its failure goes to the caller's failure continuation without a restore; only the token is added
InlineEnter(B, Inl) ==
  /\ st = "eval" /\ IsCall(cur) /\ RuleOf(cur) \in Inl
  /\ Descend([k |-> "inl", r |-> RuleOf(cur), sp |-> pos], IF IsAct(cur) THEN Nil ELSE B[cur.r]) /\ Silent
InlineOk ==
  /\ st = "ok" /\ stk # <<>> /\ Top.k = "inl"
  /\ LET a == AddTok(tree, tix, maxTok, Top.r, Top.sp, pos) IN
     tree' = a.tree /\ tix' = a.tix /\ maxTok' = a.maxTok /\ ev' = <<<<"add", Top.r, Top.sp, pos, a.tix>>>>
  /\ Ret("ok") /\ nadd' = nadd + 1 /\ UNCHANGED <<pos, memo, nhit>>
InlineKo == st = "ko" /\ stk # <<>> /\ Top.k = "inl" /\ Ret("ko") /\ Silent
RuleEnter(memoOn, B) ==
  /\ st = "eval" /\ IsCall(cur) /\ ~(memoOn /\ <<RuleOf(cur), pos>> \in DOMAIN memo)
  /\ Descend([k |-> "rule", r |-> RuleOf(cur), sp |-> pos, sx |-> tix], IF IsAct(cur) THEN Nil ELSE B[cur.r])
  /\ ev' = <<<<"enter", RuleOf(cur), pos, tix>>>> /\ UNCHANGED <<pos, tix, tree, maxTok, memo, nhit, nadd>>
RuleOk(memoOn) ==
  /\ st = "ok" /\ stk # <<>> /\ Top.k = "rule"
  /\ LET a == AddTok(tree, tix, maxTok, Top.r, Top.sp, pos) IN
     /\ tree' = a.tree /\ tix' = a.tix /\ maxTok' = a.maxTok
     /\ memo' = IF memoOn THEN [x \in (DOMAIN memo) \cup {<<Top.r, Top.sp>>} |->
                                  IF x = <<Top.r, Top.sp>> THEN [matched |-> TRUE, partial |-> SubSeq(a.tree, Top.sx + 1, a.tix)] ELSE memo[x]]
                ELSE memo
     /\ ev' = <<<<"add", Top.r, Top.sp, pos, a.tix>>>> \o (IF memoOn THEN <<<<"store", Top.r, Top.sp, Top.sx, 1>>>> ELSE <<>>)
              \o <<<<"exit", 1, pos, a.tix>>>>
  /\ Ret("ok") /\ nadd' = nadd + 1 /\ UNCHANGED <<pos, nhit>>
RuleKo(memoOn) ==
  /\ st = "ko" /\ stk # <<>> /\ Top.k = "rule"
  /\ memo' = IF memoOn THEN [x \in (DOMAIN memo) \cup {<<Top.r, Top.sp>>} |->
                               IF x = <<Top.r, Top.sp>> THEN [matched |-> FALSE, partial |-> <<>>] ELSE memo[x]]
             ELSE memo
  /\ pos' = Top.sp /\ tix' = Top.sx
  /\ ev' = (IF memoOn THEN <<<<"store", Top.r, Top.sp, Top.sx, 0>>>> ELSE <<>>) \o <<<<"restore", Top.sp, Top.sx>>, <<"exit", 0, Top.sp, Top.sx>>>>
  /\ Ret("ko") /\ UNCHANGED <<tree, maxTok, nhit, nadd>>

\* parse closure (tmpl 347-363): Trim on success, error carries maxToken
Halt == /\ st \in {"ok", "ko"} /\ stk = <<>>
        /\ st' = (IF st = "ok" THEN "accept" ELSE "reject")
        /\ tree' = (IF st = "ok" THEN SubSeq(tree, 1, tix) ELSE tree)
        /\ ev' = <<>> /\ UNCHANGED <<pos, tix, maxTok, memo, stk, cur, nhit, nadd>>

\* with -inline: calls of inlined rules take the Inline* actions, all others the rule wrapper
StepInl(B, w, memoOn, Inl) ==
  \/ MatchChr(w) \/ MatchRng(w) \/ MatchDot(w) \/ EvalNil \/ EvalPred
  \/ SeqEnter \/ SeqNext \/ SeqOk \/ SeqKo
  \/ AltSave \/ AltOk \/ AltRetry \/ AltKo
  \/ OptSave \/ OptOk \/ OptKo
  \/ StarSave \/ StarAgain \/ StarOut \/ PlusFirst \/ PlusLoop \/ PlusKo
  \/ AndSave \/ AndOk \/ AndKo \/ NotSave \/ NotOk \/ NotKo
  \/ CapEnter \/ CapAdd \/ CapKo
  \/ InlineEnter(B, Inl) \/ InlineOk \/ InlineKo
  \/ (IsCall(cur) /\ st = "eval" /\ RuleOf(cur) \notin Inl /\ (MemoHit(memoOn) \/ RuleEnter(memoOn, B)))
  \/ RuleOk(memoOn) \/ RuleKo(memoOn)
  \/ Halt

\* with -switch (and possibly -inline): B holds the rewritten bodies
StepSw(B, w, memoOn, Inl) ==
  \/ StepInl(B, w, memoOn, Inl)
  \/ SwitchDispatch(w) \/ SkipTerminal(w) \/ SkipSeq \/ SkipCap \/ SkipInline(B, Inl) \/ SkipDrop(Inl)

Step(B, w, memoOn) ==
  \/ MatchChr(w) \/ MatchRng(w) \/ MatchDot(w) \/ EvalNil \/ EvalPred
  \/ SeqEnter \/ SeqNext \/ SeqOk \/ SeqKo
  \/ AltSave \/ AltOk \/ AltRetry \/ AltKo
  \/ OptSave \/ OptOk \/ OptKo
  \/ StarSave \/ StarAgain \/ StarOut \/ PlusFirst \/ PlusLoop \/ PlusKo
  \/ AndSave \/ AndOk \/ AndKo \/ NotSave \/ NotOk \/ NotKo
  \/ CapEnter \/ CapAdd \/ CapKo
  \/ MemoHit(memoOn) \/ RuleEnter(memoOn, B) \/ RuleOk(memoOn) \/ RuleKo(memoOn)
  \/ Halt

\* reset closure + first call p.rules[entry]()
VMInit(entry) ==
  /\ pos = 0 /\ tix = 0 /\ tree = <<>> /\ maxTok = ZeroTok /\ memo = << >>
  /\ stk = <<>> /\ st = "eval" /\ cur = Ref(entry) /\ ev = <<>> /\ nhit = 0 /\ nadd = 0

Done == st \in {"accept", "reject"}

(* ---------- invariants (B, w, memoOn, entry supplied by the extending module) ------------ *)
\* at halt the machine agrees with the denotational semantics (C01, C03, C11)
Agree(B, w, entry) ==
  Done => LET E == Parse(B, w, entry) IN
          /\ (st = "accept") = E.ok
          /\ (E.ok => pos = E.pos /\ tree = E.toks)
          /\ (~E.ok => maxTok = ErrTok(E.adds))
\* the live prefix of the token buffer never exceeds the buffer, offsets stay inside the input (C03, C13)
TokensLive(w) ==
  /\ tix <= Len(tree) /\ pos <= Len(w)
  /\ \A k \in 1..tix : tree[k][2] <= tree[k][3] /\ tree[k][3] <= Len(w)
\* every memo entry is what the semantics says for that rule at that offset (C06)
MemoConsistent(B, w) ==
  \A key \in DOMAIN memo :
    LET E == Eval(B, w, IF IsActName(key[1]) THEN Act(ActIndex(key[1])) ELSE Ref(key[1]), key[2]) IN
    memo[key].matched = E.ok /\ (E.ok => memo[key].partial = E.toks)
\* the furthest-token register is within the input (C11)
FurthestOK(w) == maxTok[3] <= Len(w) /\ (maxTok # ZeroTok => maxTok[2] < maxTok[3])
=============================================================================
