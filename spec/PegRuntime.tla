------------------------------ MODULE PegRuntime ------------------------------
(***************************************************************************)
(* Parser instances and their API (tree/peg.go.tmpl: Init, Buffer, Reset,  *)
(* Parse, Execute, observers) for N instances used from one or several     *)
(* goroutines.  Each instance follows the documented call sequence          *)
(*      Init ; (Buffer := w ; Reset ; Parse ; [Parse] ; Execute ; observe)* *)
(* and the requirement (C12, C14) is that what an instance returns depends *)
(* only on its own last input: any interleaving of the calls of different  *)
(* instances gives every instance its solo result, and a reused instance   *)
(* gives the result of a fresh one.                                        *)
(* The model keeps per instance exactly the closure state of Init and      *)
(* treats the result of a parse as an uninterpreted function Result(w) of  *)
(* the input (PegSem!Parse in the conformance check).                      *)
(***************************************************************************)
EXTENDS Integers, Sequences, FiniteSets, TLC

CONSTANTS
  \* @type: Set(Int);
  Inst,       \* set of instance ids
  \* @type: Set(Str);
  Inputs,     \* set of input identifiers
  \* @type: Int;
  MaxParses   \* bound on parses per instance

\* @type: Str => <<Str, Str>>;
Result(w) == <<"result-of", w>>      \* uninterpreted: stands for verdict, tokens, tree, actions, error of input w
\* @type: Str => <<Str, Str>>;
Continued(w) == <<"continued", w>>   \* ... of Parse called once more without Reset: it goes on at the position the
                                     \* first call stopped at, with the tokens, furthest token and memo table it left

VARIABLES
  \* @type: Int -> { pc: Str, buf: Str, holds: Str, out: <<Str, Str>>, parses: Int };
  inst     \* [Inst -> [pc, buf, memoOf (input whose memo entries / tokens / maxToken the closure holds), out, parses]]
vars == inst

\* @type: <<Str, Str>>;
NoResult == <<"none", "none">>
Fresh == [pc |-> "new", buf |-> "none", holds |-> "none", out |-> NoResult, parses |-> 0]
Init == inst = [i \in Inst |-> Fresh]

DoInit(i) == inst[i].pc = "new" /\ inst' = [inst EXCEPT ![i].pc = "ready"]
SetBuffer(i, w) == inst[i].pc \in {"ready", "observed"} /\ inst[i].parses < MaxParses
                   /\ inst' = [inst EXCEPT ![i].buf = w, ![i].pc = "buffered"]
\* Reset re-creates position, tokenIndex, maxToken, memo table and rune buffer from Buffer
Reset(i) == inst[i].pc = "buffered" /\ inst' = [inst EXCEPT ![i].holds = "none", ![i].pc = "reset"]
\* Parse fills the closure state from the current buffer only
Parse(i) == inst[i].pc = "reset"
            /\ inst' = [inst EXCEPT ![i].holds = inst[i].buf, ![i].out = Result(inst[i].buf), ![i].pc = "parsed", ![i].parses = @ + 1]
\* a second Parse without Reset (statement-at-a-time use): still a function of the instance's own buffer only
ParseAgain(i) == inst[i].pc = "parsed" /\ inst[i].out = Result(inst[i].buf)
                 /\ inst' = [inst EXCEPT ![i].out = Continued(inst[i].buf)]
Execute(i) == inst[i].pc = "parsed" /\ inst' = [inst EXCEPT ![i].pc = "executed"]
Observe(i) == inst[i].pc \in {"parsed", "executed"} /\ inst' = [inst EXCEPT ![i].pc = "observed"]

Next == \E i \in Inst : DoInit(i) \/ (\E w \in Inputs : SetBuffer(i, w)) \/ Reset(i) \/ Parse(i) \/ ParseAgain(i) \/ Execute(i) \/ Observe(i)
Spec == Init /\ [][Next]_vars

\* C14: a step of instance i leaves every other instance unchanged
Confinement == [][\A i \in Inst : (inst'[i] # inst[i]) => \A j \in Inst \ {i} : inst'[j] = inst[j]]_vars
\* C12: whatever happened before, what an instance shows is the result of its current input alone
FreshEquivalence == \A i \in Inst : inst[i].pc \in {"parsed", "executed", "observed"} => inst[i].out \in {Result(inst[i].buf), Continued(inst[i].buf)}
\* nothing of an earlier input is held when a parse starts
ResetClean == \A i \in Inst : inst[i].pc = "reset" => inst[i].holds = "none"

(* ---------- unbounded safety (Apalache): the invariants are inductive ---------------------- *)
\* apalache-mc check --cinit=ConstInit --init=IndInit --inv=IndInv --length=1 PegRuntime.tla   (step)
\* apalache-mc check --cinit=ConstInit --init=Init --inv=IndInv --length=0 PegRuntime.tla      (base)
\* i.e. from ANY state that satisfies the invariant, not only the reachable ones (three instances, three inputs)
ConstInit == Inst = {1, 2, 3} /\ Inputs = {"u", "v", "w"} /\ MaxParses \in 0..4
PCs == {"new", "ready", "buffered", "reset", "parsed", "executed", "observed"}
TypeOK == inst \in [Inst -> [pc : PCs, buf : Inputs \cup {"none"}, holds : Inputs \cup {"none"},
                             out : {NoResult} \cup {Result(w) : w \in Inputs} \cup {Continued(w) : w \in Inputs},
                             parses : 0..4]]
          /\ \A i \in Inst : inst[i].parses <= MaxParses
\* strengthening: a parse that is being prepared is still within the budget
ParseBudget == \A i \in Inst : inst[i].pc \in {"buffered", "reset"} => inst[i].parses < MaxParses
\* ... and has a buffer
BufferSet == \A i \in Inst : inst[i].pc \notin {"new", "ready"} => inst[i].buf \in Inputs
IndInv == TypeOK /\ FreshEquivalence /\ ResetClean /\ ParseBudget /\ BufferSet
IndInit == IndInv
\* the action property as a step invariant for Apalache (--inv with primes is an action invariant)
ConfinementStep == \A i \in Inst : (inst'[i] # inst[i]) => \A j \in Inst \ {i} : inst'[j] = inst[j]
=============================================================================
