----------------------------- MODULE MCBootstrap -----------------------------
EXTENDS Bootstrap
\* an abstract instance: each stage's output determines the next; the last three generations are the
\* same function applied to the same grammar (peg.peg), so the chain is at a fixed point from stage 4 on
MCGen(f, n) == IF n <= 3 THEN <<"stage", n>> ELSE "peg.peg.go"
=============================================================================
