-------------------------------- MODULE CliIO --------------------------------
(***************************************************************************)
(* Scenario enumeration (CLI_MODE = "gen") and conformance judgement       *)
(* (CLI_MODE = "judge") for the peg command, over the full scenario space  *)
(* of Cli.tla.  The judgement applies the requirement Cli!CliReq to what    *)
(* the real binary did, and also reports where the step machine of Cli.tla *)
(* predicts a different outcome (conformance drift of the model).          *)
(***************************************************************************)
EXTENDS CliReqs, PegSyntax, Json, IOUtils

MODE == IOEnv.CLI_MODE
OUT  == IOEnv.CLI_OUT
INP  == IF MODE = "judge" THEN IOEnv.CLI_IN ELSE ""

GValid == [rules |-> <<[name |-> "A", body |-> SeqE(<<Chr(97), Ref("B"), Not(Dot)>>)],
                       [name |-> "B", body |-> AltE(<<Chr(98), Star(Rng(99, 101)), Cap(Chr(120))>>)]>>]
GWarned == [rules |-> GValid.rules \o <<[name |-> "C", body |-> Chr(122)]>>]
TextOf(kind) ==
  CASE kind = "valid" -> Render(GValid, DefaultStyle)
    [] kind = "warned" -> Render(GWarned, DefaultStyle)
    [] kind = "syntax" -> Render(GValid, DefaultStyle) \o "Z <- ( 'a'\n"
    \* the driver replaces the marker line by a comment line of 100 000 characters
    [] kind = "validlong" -> Header(DefaultStyle) \o RenderRule(GValid.rules[1], DefaultStyle) \o "#@LONGLINE@\n" \o RenderRule(GValid.rules[2], DefaultStyle)
    [] OTHER -> ""

\* a canonical order that does not depend on CHOOSE: enumerate the product explicitly
SrcL == <<"file", "stdin", "dash", "missing", "directory", "fileopt", "file2">>
TextL == <<"valid", "warned", "syntax", "empty", "validlong">>
DestL == <<"default", "named", "stdout", "missingdir", "isdir", "devfull">>
PreL == <<"absent", "longer">>
OptL == <<"", "i", "s", "is", "n", "nis">>
Total == Len(SrcL) * Len(TextL) * Len(DestL) * Len(PreL) * 2 * Len(OptL)
ScenAt(n) ==    \* n in 0..Total-1, mixed radix
  LET a == n % Len(SrcL)            n1 == n \div Len(SrcL)
      b == n1 % Len(TextL)          n2 == n1 \div Len(TextL)
      c == n2 % Len(DestL)          n3 == n2 \div Len(DestL)
      d == n3 % Len(PreL)           n4 == n3 \div Len(PreL)
      e == n4 % 2                   n5 == n4 \div 2
  IN [src |-> SrcL[a + 1], text |-> TextL[b + 1], dest |-> DestL[c + 1], pre |-> PreL[d + 1], strict |-> e = 1, opt |-> OptL[n5 + 1]]
GenRec(n) == LET s == ScenAt(n - 1) IN
  [id |-> n, sc |-> s, grammar |-> TextOf(s.text), destkind |-> DestKind(s)]

Obs == IF MODE = "judge" THEN ndJsonDeserialize(INP) ELSE <<>>
\* the step machine run to completion, as a function of the scenario (it is deterministic)
ModelOutcome(s) ==
  LET openIn == s.src # "missing"
      openOut == openIn /\ DestKind(s) # "unopenable"
      read == openOut /\ s.src # "directory"
      parse == read /\ TextOK(s)
      comp == parse /\ ~(s.text = "warned" /\ s.strict)
      write == comp /\ DestKind(s) # "devfull"
      e == ~write
  IN [exit |-> IF e THEN 1 ELSE 0, stderr |-> e \/ (comp /\ s.text = "warned"),
      dest |-> CASE DestKind(s) = "file" -> (IF ~openOut THEN (IF s.pre = "longer" THEN "other" ELSE "absent") ELSE IF write THEN "complete" ELSE "empty")
                 [] DestKind(s) = "stdout" -> (IF write THEN "complete" ELSE "empty")
                 [] OTHER -> "absent"]
JudgeOne(o) ==
  LET s == o.sc
      ob == [exit |-> o.exit, stderr |-> o.stderr # "", dest |-> o.dest]
      m == ModelOutcome(s)
  IN (IF CliReq(s, ob) THEN <<>> ELSE
        <<[kind |-> "mis", prop |-> "C18", id |-> o.id, field |-> "cli-requirement", sc |-> s, want |-> [failure |-> Failure(s)], got |-> ob, stderrtext |-> o.stderr]>>) \o
     (IF ob = m \/ (m.dest = "empty" /\ ob.dest \in {"empty", "other"} /\ ob.exit = m.exit /\ ob.stderr = m.stderr) THEN <<>> ELSE
        <<[kind |-> "drift", prop |-> "C18", id |-> o.id, field |-> "model-drift", sc |-> s, want |-> m, got |-> ob, stderrtext |-> o.stderr]>>) \o
     <<[kind |-> "stat", id |-> o.id, failure |-> Failure(s)]>>
RECURSIVE JudgeAll(_)
JudgeAll(k) == IF k > Len(Obs) THEN <<>> ELSE JudgeOne(Obs[k]) \o JudgeAll(k + 1)

VARIABLES xdone
XInit == xdone = FALSE
XNext == /\ ~xdone /\ xdone' = TRUE
         /\ IF MODE = "gen" THEN ndJsonSerialize(OUT, [n \in 1..Total |-> GenRec(n)])
            ELSE ndJsonSerialize(OUT, JudgeAll(1))
XSpec == XInit /\ [][XNext]_xdone
=============================================================================
