SPECIFICATION XSpec
CHECK_DEADLOCK FALSE
