----------------------------- MODULE PegSyntax -----------------------------
(***************************************************************************)
(* Abstract syntax of .peg grammars, the desugaring the tree builder of    *)
(* pointlander/peg performs (tree/peg.go, the Add methods), and an executable printer  *)
(* Render(G, style) for the concrete syntax of docs/peg-file-syntax.md.    *)
(*                                                                         *)
(* Runes are integers (code points), never TLA+ strings.                   *)
(***************************************************************************)
EXTENDS Integers, Sequences, FiniteSets, TLC

(* ---------- constructors ------------------------------------------------ *)
Chr(c)       == [op |-> "chr", c |-> c]
Dot          == [op |-> "dot"]
Rng(lo, hi)  == [op |-> "rng", lo |-> lo, hi |-> hi]
Nil          == [op |-> "nil"]
Ref(r)       == [op |-> "ref", r |-> r]
SeqE(es)     == [op |-> "seq", es |-> es]
AltE(es)     == [op |-> "alt", es |-> es]
Opt(a)       == [op |-> "opt", a |-> a]
Star(a)      == [op |-> "star", a |-> a]
Plus(a)      == [op |-> "plus", a |-> a]
And(a)       == [op |-> "and", a |-> a]
Not(a)       == [op |-> "not", a |-> a]
Cap(a)       == [op |-> "cap", a |-> a]
Act(k)       == [op |-> "act", k |-> k]          \* k: textual index, 0-based
RawAct(t)    == [op |-> "rawact", t |-> t]       \* action with verbatim Go text (code generation scenarios only)
RawPred(t)   == [op |-> "rawpred", t |-> t]      \* predicate with verbatim Go text
Pred(v)      == [op |-> "pred", v |-> v]         \* &{ v } with a fixed pure outcome
Chg(k)       == [op |-> "chg", k |-> k]          \* !{ code }: state change, runs inline
(* sugar (what the concrete syntax offers beyond the core) *)
IChr(c)      == [op |-> "ichr", c |-> c]         \* one character inside "..."
Str(cs, ci)  == [op |-> "str", cs |-> cs, ci |-> ci]   \* 'abc' / "abc", Len(cs) >= 1
\* class: items are records [lo, hi, r] (r = TRUE: written lo-hi, FALSE: single char lo)
Cls(items, neg, ci) == [op |-> "cls", items |-> items, neg |-> neg, ci |-> ci]
Item(lo, hi) == [lo |-> lo, hi |-> hi, r |-> TRUE]
Single(c)    == [lo |-> c, hi |-> c, r |-> FALSE]

UnaryOps == {"opt", "star", "plus", "and", "not", "cap"}
ListOps  == {"seq", "alt"}

(* ---------- ASCII case mapping as strings.ToLower/ToUpper do it ---------- *)
IsLower(c) == c \in 97..122
IsUpper(c) == c \in 65..90
IsLetter(c) == IsLower(c) \/ IsUpper(c)
Lower(c) == IF IsUpper(c) THEN c + 32 ELSE c
Upper(c) == IF IsLower(c) THEN c - 32 ELSE c

(* ---------- desugaring: what the builder makes of each construct --------- *)
\* AddDoubleCharacter: alt(lower, upper) for [a-zA-Z]; any other char is AddCharacter
DesugarIChr(c) == IF IsLetter(c) THEN AltE(<<Chr(Lower(c)), Chr(Upper(c))>>) ELSE Chr(c)

DesugarItem(it, ci) ==
  IF it.r
  THEN IF ci THEN AltE(<<Rng(Lower(it.lo), Lower(it.hi)), Rng(Upper(it.lo), Upper(it.hi))>>)
             ELSE Rng(it.lo, it.hi)
  ELSE IF ci THEN DesugarIChr(it.lo) ELSE Chr(it.lo)

ListOrOne(op, es) == IF Len(es) = 1 THEN es[1] ELSE [op |-> op, es |-> es]

RECURSIVE Desugar(_)
Desugar(e) ==
  CASE e.op \in UnaryOps -> [e EXCEPT !.a = Desugar(e.a)]
    [] e.op \in ListOps  -> [e EXCEPT !.es = [i \in 1..Len(e.es) |-> Desugar(e.es[i])]]
    [] e.op = "ichr" -> DesugarIChr(e.c)
    [] e.op = "str"  -> ListOrOne("seq", [i \in 1..Len(e.cs) |->
                             IF e.ci THEN DesugarIChr(e.cs[i]) ELSE Chr(e.cs[i])])
    [] e.op = "cls"  -> LET body == ListOrOne("alt", [i \in 1..Len(e.items) |-> DesugarItem(e.items[i], e.ci)])
                        IN IF e.neg THEN SeqE(<<Not(body), Dot>>) ELSE body
    [] OTHER -> e

\* a grammar: [rules |-> <<[name, body], ...>>]; first rule is the default entry
Core(G) == [G EXCEPT !.rules = [i \in 1..Len(G.rules) |-> [name |-> G.rules[i].name, body |-> Desugar(G.rules[i].body)]]]

RuleNames(G) == {G.rules[i].name : i \in 1..Len(G.rules)}
BodyMap(G) == [n \in RuleNames(G) |-> G.rules[CHOOSE i \in 1..Len(G.rules) : G.rules[i].name = n].body]

\* structural flattening of nested seq/alt (associativity); used to compare a tree
\* dumped from the real builder with the expected one, where grouping is immaterial
RECURSIVE Flat(_), FlatList(_, _)
FlatList(op, es) ==
  IF es = <<>> THEN <<>>
  ELSE LET h == Flat(Head(es)) IN
       (IF h.op = op THEN h.es ELSE <<h>>) \o FlatList(op, Tail(es))
Flat(e) ==
  CASE e.op \in UnaryOps -> [e EXCEPT !.a = Flat(e.a)]
    [] e.op \in ListOps  -> LET es == FlatList(e.op, e.es) IN
                            IF Len(es) = 1 THEN es[1] ELSE [op |-> e.op, es |-> es]
    [] OTHER -> e

\* the grouping the builder really produces (tree/peg.go addList): when the FIRST operand of a choice (sequence) is
\* itself a choice (sequence) node - a parenthesised one, a multi-character literal, the two cases of a
\* case-insensitive letter - the list is continued in that node; later operands stay nested.  Grouping is
\* immaterial for the language and for the events of plain parsers, but the -switch analysis counts alternatives.
RECURSIVE Shape(_)
Shape(e) ==
  CASE e.op \in UnaryOps -> [e EXCEPT !.a = Shape(e.a)]
    [] e.op \in ListOps  -> LET es == [i \in 1..Len(e.es) |-> Shape(e.es[i])] IN
                            IF es[1].op = e.op THEN [op |-> e.op, es |-> es[1].es \o Tail(es)] ELSE [op |-> e.op, es |-> es]
    [] OTHER -> e
ShapeG(G) == [G EXCEPT !.rules = [i \in 1..Len(G.rules) |-> [name |-> G.rules[i].name, body |-> Shape(G.rules[i].body)]]]

(* ---------- references, actions, captures -------------------------------- *)
RECURSIVE Refs(_), RefsL(_)
RefsL(es) == IF es = <<>> THEN {} ELSE Refs(Head(es)) \cup RefsL(Tail(es))
Refs(e) ==
  CASE e.op = "ref" -> {e.r}
    [] e.op \in UnaryOps -> Refs(e.a)
    [] e.op \in ListOps -> RefsL(e.es)
    [] OTHER -> {}

RECURSIVE CountOp(_, _), CountOpL(_, _)
CountOpL(es, op) == IF es = <<>> THEN 0 ELSE CountOp(Head(es), op) + CountOpL(Tail(es), op)
CountOp(e, op) ==
  (IF e.op = op THEN 1 ELSE 0) +
  (CASE e.op \in UnaryOps -> CountOp(e.a, op)
     [] e.op \in ListOps -> CountOpL(e.es, op)
     [] OTHER -> 0)

RECURSIVE SumOver(_, _, _)
SumOver(G, op, i) == IF i > Len(G.rules) THEN 0 ELSE CountOp(G.rules[i].body, op) + SumOver(G, op, i + 1)
NumActions(G) == SumOver(G, "act", 1)
HasCapture(G) == SumOver(G, "cap", 1) > 0

\* number actions 0,1,2... in textual order (rule order, then left to right), as link() does
RECURSIVE Number(_, _), NumberL(_, _)
NumberL(es, k) ==
  IF es = <<>> THEN [es |-> <<>>, k |-> k]
  ELSE LET h == Number(Head(es), k)
           t == NumberL(Tail(es), h.k)
       IN [es |-> <<h.e>> \o t.es, k |-> t.k]
Number(e, k) ==
  CASE e.op = "act" -> [e |-> Act(k), k |-> k + 1]
    [] e.op \in UnaryOps -> LET r == Number(e.a, k) IN [e |-> [e EXCEPT !.a = r.e], k |-> r.k]
    [] e.op \in ListOps -> LET r == NumberL(e.es, k) IN [e |-> [e EXCEPT !.es = r.es], k |-> r.k]
    [] OTHER -> [e |-> e, k |-> k]
RECURSIVE NumberRules(_, _, _)
NumberRules(rs, i, k) ==
  IF i > Len(rs) THEN <<>>
  ELSE LET r == Number(rs[i].body, k) IN
       <<[name |-> rs[i].name, body |-> r.e]>> \o NumberRules(rs, i + 1, r.k)
NumberActions(G) == [G EXCEPT !.rules = NumberRules(G.rules, 1, 0)]

ActName(k) == "Action" \o ToString(k)

(* ======================= concrete syntax: Render ========================== *)
LowerS == <<"a","b","c","d","e","f","g","h","i","j","k","l","m","n","o","p","q","r","s","t","u","v","w","x","y","z">>
UpperS == <<"A","B","C","D","E","F","G","H","I","J","K","L","M","N","O","P","Q","R","S","T","U","V","W","X","Y","Z">>
DigitS == <<"0","1","2","3","4","5","6","7","8","9">>
HexS   == <<"0","1","2","3","4","5","6","7","8","9","a","b","c","d","e","f">>
HexSU  == <<"0","1","2","3","4","5","6","7","8","9","A","B","C","D","E","F">>

IsPlain(c) == IsLower(c) \/ IsUpper(c) \/ c \in 48..57
PlainS(c) == IF IsLower(c) THEN LowerS[c - 96] ELSE IF IsUpper(c) THEN UpperS[c - 64] ELSE DigitS[c - 47]
\* printable ASCII punctuation that needs no escape anywhere we use it raw
RawPunct == [c \in {32, 33, 35, 36, 37, 38, 40, 41, 42, 43, 44, 46, 47, 58, 59, 60, 61, 62, 63, 64, 95, 96, 123, 124, 125, 126} |->
  CASE c = 32 -> " " [] c = 33 -> "!" [] c = 35 -> "#" [] c = 36 -> "$" [] c = 37 -> "%" [] c = 38 -> "&"
    [] c = 40 -> "(" [] c = 41 -> ")" [] c = 42 -> "*" [] c = 43 -> "+" [] c = 44 -> "," [] c = 46 -> "."
    [] c = 47 -> "/" [] c = 58 -> ":" [] c = 59 -> ";" [] c = 60 -> "<" [] c = 61 -> "=" [] c = 62 -> ">"
    [] c = 63 -> "?" [] c = 64 -> "@" [] c = 95 -> "_" [] c = 96 -> "`" [] c = 123 -> "{" [] c = 124 -> "|"
    [] c = 125 -> "}" [] c = 126 -> "~"]
\* the named escapes of peg.peg's Escape rule
Named == [c \in {7, 8, 27, 12, 10, 13, 9, 11, 39, 34, 91, 93, 45, 92} |->
  CASE c = 7 -> "\\a" [] c = 8 -> "\\b" [] c = 27 -> "\\e" [] c = 12 -> "\\f" [] c = 10 -> "\\n"
    [] c = 13 -> "\\r" [] c = 9 -> "\\t" [] c = 11 -> "\\v" [] c = 39 -> "\\'" [] c = 34 -> "\\\""
    [] c = 91 -> "\\[" [] c = 93 -> "\\]" [] c = 45 -> "\\-" [] c = 92 -> "\\\\"]

RECURSIVE HexDigits(_, _)
HexDigits(n, tab) == IF n < 16 THEN tab[n + 1] ELSE HexDigits(n \div 16, tab) \o tab[(n % 16) + 1]
HexEsc(c, upper) == "\\0x" \o HexDigits(c, IF upper THEN HexSU ELSE HexS)
Oct3(c) == "\\" \o DigitS[(c \div 64) + 1] \o DigitS[((c \div 8) % 8) + 1] \o DigitS[(c % 8) + 1]
\* the short octal form \d or \dd (only valid when the next character is not an octal digit)
OctShort(c) == IF c < 8 THEN "\\" \o DigitS[c + 1] ELSE "\\" \o DigitS[(c \div 8) + 1] \o DigitS[(c % 8) + 1]

IsHexDigitChar(c) == c \in 48..57 \/ c \in 97..102 \/ c \in 65..70

(* esc styles: "named" (named escape where one exists, else octal below 128, else hex),
   "octal" (3-digit octal below 256 else hex), "hex", "HEX" (upper-case digits)         *)
EscOf(c, esc) ==
  CASE esc = "hex" -> HexEsc(c, FALSE)
    [] esc = "octshort" -> IF c < 64 THEN OctShort(c) ELSE IF c < 256 THEN Oct3(c) ELSE HexEsc(c, FALSE)
    [] esc = "HEX" -> HexEsc(c, TRUE)
    [] esc = "octal" -> IF c < 256 THEN Oct3(c) ELSE HexEsc(c, FALSE)
    [] OTHER -> IF c \in DOMAIN Named THEN Named[c] ELSE IF c < 128 THEN Oct3(c) ELSE HexEsc(c, FALSE)

\* one character in context ctx \in {"sq","dq","cls"}; raw = may be written raw there
RawOK(c, ctx) == IsPlain(c) \/ (c \in DOMAIN RawPunct)
                 \/ (c = 34 /\ ctx # "dq") \/ (c = 39 /\ ctx # "sq") \/ (c = 91 /\ ctx # "cls")
RawS(c) == IF IsPlain(c) THEN PlainS(c) ELSE IF c \in DOMAIN RawPunct THEN RawPunct[c]
           ELSE IF c = 34 THEN "\"" ELSE IF c = 39 THEN "'" ELSE "["
\* st.raw: write characters raw where allowed; st.esc: escape style otherwise.
\* afterHex: previous spelling was a hex escape, whose digit run is greedy.
IsHexForm(c, esc) == esc \in {"hex", "HEX"} \/ (esc \in {"octal", "octshort"} /\ c >= 256)
                     \/ (esc = "named" /\ c \notin DOMAIN Named /\ c >= 128)
\* In case-insensitive contexts ("dq": inside "...", "cci": inside [[...]]) a letter is case-insensitive only
\* when written raw (an escape always denotes exactly its code point), so letters stay raw there whatever
\* the style; a raw hex-digit letter cannot follow a hex escape directly, so the preceding character is then
\* spelled in octal (callers guarantee it is below 256 in that situation, see SplitCI).
CI(ctx) == ctx \in {"dq", "cci"}
BaseCtx(ctx) == IF ctx = "cci" THEN "cls" ELSE ctx
CharS(c, ctx, st, afterHex) ==
  IF CI(ctx) /\ IsLetter(c) THEN [s |-> RawS(c), hex |-> FALSE]
  ELSE IF st.raw /\ RawOK(c, BaseCtx(ctx)) /\ ~(afterHex /\ IsHexDigitChar(c)) /\ ~(BaseCtx(ctx) = "cls" /\ c = 94)
  THEN [s |-> RawS(c), hex |-> FALSE]
  ELSE [s |-> EscOf(c, st.esc), hex |-> IsHexForm(c, st.esc)]
\* spelling of character i of cs when the next character is a raw hex-digit letter of a case-insensitive context
NextIsRawHexLetter(cs, i, ctx) == CI(ctx) /\ i < Len(cs) /\ IsLetter(cs[i + 1]) /\ IsHexDigitChar(cs[i + 1])
IsOctDigitChar(c) == c \in 48..55
\* with the "octshort" style a short escape must not swallow a following raw octal digit: \d d and \dd d are only
\* safe when they cannot be read as a longer escape, i.e. the two-digit form with a first digit 4..7
ShortOctalSafe(c, nextIsOctDigit) == ~nextIsOctDigit \/ (c >= 32 /\ c < 64)
CharSBefore(c, ctx, st, afterHex, nextRawHex) ==
  LET r == CharS(c, ctx, st, afterHex) IN
  IF nextRawHex /\ r.hex THEN (IF c < 256 THEN [s |-> Oct3(c), hex |-> FALSE] ELSE [s |-> r.s \o "\" \"", hex |-> FALSE])   \* close and reopen the literal
  ELSE r

RECURSIVE CharsS(_, _, _, _, _)
\* will character j of cs be written raw as an octal digit?
RawOctNext(cs, i, ctx, st) == i < Len(cs) /\ IsOctDigitChar(cs[i + 1]) /\ st.raw
CharsS(cs, i, ctx, st, afterHex) ==
  IF i > Len(cs) THEN ""
  ELSE LET r0 == CharSBefore(cs[i], ctx, st, afterHex, NextIsRawHexLetter(cs, i, ctx))
           \* a short octal escape in front of a raw octal digit: keep it only where it cannot be misread
           r == IF st.esc = "octshort" /\ cs[i] < 64 /\ r0.s = OctShort(cs[i]) /\ ~ShortOctalSafe(cs[i], RawOctNext(cs, i, ctx, st))
                THEN [s |-> Oct3(cs[i]), hex |-> FALSE] ELSE r0
       IN r.s \o CharsS(cs, i + 1, ctx, st, r.hex)

RECURSIVE ItemsS(_, _, _, _, _)
\* ctx: "cls" or "cci".  The ends of a range are folded by the builder whatever their spelling, so they
\* follow the style ("cls"); single characters of a case-insensitive class follow the rule for letters.
ItemsS(items, i, st0, afterHex, ctx) ==
  IF i > Len(items) THEN ""
  ELSE LET it == items[i]
           st == IF st0.esc = "octshort" THEN [st0 EXCEPT !.esc = "octal"] ELSE st0   \* short octal escapes only in literals (see CharsS)
           nextRawHex == ctx = "cci" /\ i < Len(items) /\ ~items[i + 1].r /\ IsLetter(items[i + 1].lo) /\ IsHexDigitChar(items[i + 1].lo)
       IN IF it.r
          THEN LET a == CharS(it.lo, "cls", st, afterHex)
                   b0 == CharS(it.hi, "cls", st, FALSE)
                   b == IF nextRawHex /\ b0.hex /\ it.hi < 256 THEN [s |-> Oct3(it.hi), hex |-> FALSE] ELSE b0   \* (generators keep case-insensitive classes below 256)
               IN a.s \o "-" \o b.s \o ItemsS(items, i + 1, st, b.hex, ctx)
          ELSE LET a0 == CharS(it.lo, ctx, st, afterHex)
                   a == IF nextRawHex /\ a0.hex THEN (IF it.lo < 256 THEN [s |-> Oct3(it.lo), hex |-> FALSE] ELSE a0) ELSE a0
               IN a.s \o ItemsS(items, i + 1, st, a.hex, ctx)

Atomic(e) == e.op \in {"chr", "dot", "rng", "ref", "act", "rawact", "rawpred", "pred", "chg", "ichr", "str", "cls", "cap", "nil"}

(* action / predicate payload texts; st.act selects the probe form:
   "full": { p.Act(k, text, begin, end) }   (AST mode: Execute() declares all three)
   "text": { p.Act(k, text, 0, 0) }         (-noast with a capture in the grammar)
   "none": { p.Act(k, "", 0, 0) }           (-noast without capture: text is undeclared) *)
ActS(k, st) ==
  CASE st.act = "full" -> "{ p.Act(" \o ToString(k) \o ", text, begin, end) }"
    [] st.act = "text" -> "{ p.Act(" \o ToString(k) \o ", text, 0, 0) }"
    [] OTHER           -> "{ p.Act(" \o ToString(k) \o ", \"\", 0, 0) }"
PredS(v) == IF v THEN "&{ p.Yes() }" ELSE "&{ p.No() }"
ChgS(k) == "!{ p.Chg(" \o ToString(k) \o ") }"

(* st.paren: "full" parenthesises every composite operand; "min" relies on precedence
   (alternation < sequence < prefix < suffix).  Precedence levels: 0 alt, 1 seq, 2 prefix,
   3 suffix/primary.                                                                     *)
\* an operand whose text would start with "{": after & or ! it would read as a predicate / state change
RECURSIVE BraceFirst(_)
BraceFirst(e) == e.op \in {"act", "rawact"} \/ (e.op \in {"opt", "star", "plus"} /\ BraceFirst(e.a))
RECURSIVE RenderE(_, _, _), RenderList(_, _, _, _, _)
Wrap(s, need) == IF need THEN "(" \o s \o ")" ELSE s
RenderList(es, i, sep, st, lvl) ==
  IF i > Len(es) THEN ""
  ELSE (IF i > 1 THEN sep ELSE "") \o
       (IF es[i].op = "nil" /\ sep # " " /\ i = Len(es) /\ i > 1 /\ st.trailnil THEN ""
        ELSE RenderE(es[i], st, lvl)) \o RenderList(es, i + 1, sep, st, lvl)
\* lvl = minimal precedence level the context requires of the rendered text
RenderE(e, st, lvl) ==
  CASE e.op = "chr" -> "'" \o CharS(e.c, "sq", st, FALSE).s \o "'"
    [] e.op = "ichr" -> "\"" \o CharS(e.c, "dq", st, FALSE).s \o "\""
    [] e.op = "str" -> IF e.ci THEN Wrap("\"" \o CharsS(e.cs, 1, "dq", st, FALSE) \o "\"",
                                           \E i \in 1..Len(e.cs) : e.cs[i] >= 256 /\ NextIsRawHexLetter(e.cs, i, "dq") /\ CharS(e.cs[i], "dq", st, FALSE).hex)
                                ELSE "'" \o CharsS(e.cs, 1, "sq", st, FALSE) \o "'"
    [] e.op = "dot" -> "."
    [] e.op = "rng" -> "[" \o CharS(e.lo, "cls", st, FALSE).s \o "-" \o CharS(e.hi, "cls", st, FALSE).s \o "]"
    [] e.op = "cls" -> (IF e.ci THEN "[[" ELSE "[") \o (IF e.neg THEN "^" ELSE "") \o
                       ItemsS(e.items, 1, st, FALSE, IF e.ci THEN "cci" ELSE "cls") \o (IF e.ci THEN "]]" ELSE "]")
    [] e.op = "nil" -> "()"
    [] e.op = "ref" -> e.r
    [] e.op = "act" -> ActS(e.k, st)
    [] e.op = "rawact" -> "{" \o e.t \o "}"
    [] e.op = "rawpred" -> Wrap("&{" \o e.t \o "}", lvl > 2)
    [] e.op = "pred" -> Wrap(PredS(e.v), lvl > 2)      \* &{..} and !{..} are Prefix forms, not primaries
    [] e.op = "chg" -> Wrap(ChgS(e.k), lvl > 2)
    [] e.op = "cap" -> "<" \o st.sp \o RenderE(e.a, st, 0) \o st.sp \o ">"
    [] e.op = "seq" -> Wrap(RenderList(e.es, 1, " ", st, IF st.paren = "full" THEN 3 ELSE 2),
                            st.paren = "full" \/ lvl > 1)
    [] e.op = "alt" -> Wrap(RenderList(e.es, 1, st.sp \o "/" \o " ", st, IF st.paren = "full" THEN 3 ELSE 1),
                            st.paren = "full" \/ lvl > 0)
    [] e.op = "and" -> Wrap("&" \o Wrap(RenderE(e.a, st, 3), BraceFirst(e.a)), lvl > 2)
    [] e.op = "not" -> Wrap("!" \o Wrap(RenderE(e.a, st, 3), BraceFirst(e.a)), lvl > 2)
    [] e.op = "opt" -> Wrap(RenderE(e.a, st, 4) \o "?", lvl > 3)
    [] e.op = "star" -> Wrap(RenderE(e.a, st, 4) \o "*", lvl > 3)
    [] e.op = "plus" -> Wrap(RenderE(e.a, st, 4) \o "+", lvl > 3)

\* suffix operands: level 4 = "a primary": composite, prefix and suffix forms need parentheses
\* (a suffix applied to a suffix, e.g. a** is not in the grammar: Suffix <- Primary (?|*|+)? )
RenderOperand(e, st) == RenderE(e, st, 3)

DefaultStyle == [raw |-> TRUE, esc |-> "named", paren |-> "full", act |-> "full", sp |-> "",
                 arrow |-> "<-", trailnil |-> FALSE, comment |-> "", nl |-> "\n"]

\* top level body: an alternation needs no parentheses at top level, keep them anyway in
\* "full" style; in "min" style the body is rendered at level 0
RenderRule(r, st) == r.name \o " " \o st.arrow \o " " \o RenderE(r.body, st, 0) \o st.comment \o st.nl

RECURSIVE RenderRules(_, _, _)
RenderRules(rs, i, st) == IF i > Len(rs) THEN "" ELSE RenderRule(rs[i], st) \o RenderRules(rs, i + 1, st)

Header(st) == "package g" \o st.nl \o st.nl \o "type T Peg {" \o st.nl \o " Probe" \o st.nl \o "}" \o st.nl \o st.nl

Render(G, st) == Header(st) \o RenderRules(G.rules, 1, st)

\* header with leading comments / blank lines and imports: pre is text placed before "package",
\* imports is the import section text (already in concrete syntax)
RenderWith(G, st, pre, imports) ==
  pre \o "package g" \o st.nl \o st.nl \o imports \o "type T Peg {" \o st.nl \o " Probe" \o st.nl \o "}" \o st.nl \o st.nl
  \o RenderRules(G.rules, 1, st)
=============================================================================
