------------------------------ MODULE JudgeSet ------------------------------
(***************************************************************************)
(* Trace validation for the set package: every recorded history (TLC's own *)
(* histories replayed on the real package, all observers after every step) *)
(* must be a behaviour of the ABSTRACT layer: registers are finite sets of *)
(* naturals.  One verdict line per rejected observation.                   *)
(***************************************************************************)
EXTENDS Integers, Sequences, FiniteSets, TLC, Json, IOUtils, SequencesExt

\* one file per chunk (JUDGE_IN_<c>.ndjson): every TLC worker deserialises only the histories it judges
RecsOf(c) == ndJsonDeserialize(IOEnv.JUDGE_IN \o "_" \o ToString(c) \o ".ndjson")
CHUNKS == atoi(IOEnv.JUDGE_CHUNKS)
OUTDIR == IOEnv.JUDGE_OUT

Apply(S, o) ==    \* S: <<set1, set2, set3>>
  CASE o.op = "add"   -> [S EXCEPT ![o.r] = S[o.r] \cup (o.b..o.e)]
    [] o.op = "add1"  -> [S EXCEPT ![o.r] = S[o.r] \cup {o.b}]
    [] o.op = "copy"  -> [S EXCEPT ![o.r] = S[o.a]]
    [] o.op = "union" -> [S EXCEPT ![o.r] = S[o.a] \cup S[o.b]]
    [] o.op = "compl" -> [S EXCEPT ![o.r] = (0..o.lim) \ S[o.a]]

\* histories over atoms (GenSet!Wide): a register is a set of atom indices; atom k stands for the integers from
\* h.atoms[k + 1] up to the element before the next atom (the last one ends at h.top)
IsWide(h) == "atoms" \in DOMAIN h
\* TLC's integers are 32 bits wide and the whole range has 2^31 members, so sizes are pairs <<q, r>> = q * 65536 + r
AtomLast(h, k) == IF k < h.u THEN h.atoms[k + 2] - 1 ELSE h.top
AtomSize(h, k) == LET d == AtomLast(h, k) - h.atoms[k + 1] IN <<d \div 65536, (d % 65536) + 1>>     \* r may be 65536: normalised by Norm
Norm(p) == <<p[1] + (p[2] \div 65536), p[2] % 65536>>
RECURSIVE SumSizes(_, _)
SumSizes(h, S) == IF S = {} THEN <<0, 0>>
                  ELSE LET k == CHOOSE k \in S : TRUE a == AtomSize(h, k) b == SumSizes(h, S \ {k}) IN Norm(<<a[1] + b[1], a[2] + b[2]>>)
Card(h, S) == IF IsWide(h) THEN SumSizes(h, S) ELSE Cardinality(S)
LenOf(h, ro) == IF IsWide(h) THEN ro.lenqr ELSE ro.len
\* membership probes: every integer 0..u+1, or the first and the last element of every atom
HasWant(h, S) == IF IsWide(h) THEN [x \in 1..(2 * (h.u + 1)) |-> ((x - 1) \div 2) \in S] ELSE [x \in 1..(h.u + 2) |-> (x - 1) \in S]
SortedSeq(S) == SortSeq(SetToSeq(S), <)
TF(b) == IF b THEN "t" ELSE "f"
If(c, x) == IF c THEN <<x>> ELSE <<>>
Mis(h, k, field, reg, want, got) ==
  [kind |-> "mis", prop |-> "C16", id |-> h.id, step |-> k, field |-> field, reg |-> reg, want |-> want, got |-> got,
   ops |-> SubSeq(h.ops, 1, k)]

RegMis(h, k, S, st, i) ==
  LET ro == st.regs[i] IN
  If(ro.panic # "", Mis(h, k, "observer-panic", i, "", ro.panic)) \o
  If(ro.strpanic # "", Mis(h, k, "string-panic", i, SortedSeq(S[i]), ro.strpanic)) \o
  (IF ro.panic # "" THEN <<>> ELSE
     If(LenOf(h, ro) # Card(h, S[i]), Mis(h, k, "len", i, Card(h, S[i]), LenOf(h, ro))) \o
     If(ro.has # HasWant(h, S[i]), Mis(h, k, "has", i, HasWant(h, S[i]), ro.has))) \o
  (IF ro.strpanic # "" \/ IsWide(h) THEN <<>> ELSE     \* (the element list of a wide set is not asked for)
     If(~ro.strok \/ ro.str # SortedSeq(S[i]), Mis(h, k, "string", i, SortedSeq(S[i]), ro.str)))

RECURSIVE PairMis(_, _, _, _, _)
PairMis(h, k, S, st, p) ==   \* p = 0..8 enumerates ordered pairs
  IF p > 8 THEN <<>>
  ELSE LET i == (p \div 3) + 1 j == (p % 3) + 1 IN
       If(st.inter[i][j] # TF(S[i] \cap S[j] # {}), Mis(h, k, "intersects", <<i, j>>, TF(S[i] \cap S[j] # {}), st.inter[i][j])) \o
       If(st.equal[i][j] # TF(S[i] = S[j]), Mis(h, k, "equal", <<i, j>>, TF(S[i] = S[j]), st.equal[i][j])) \o
       PairMis(h, k, S, st, p + 1)

RECURSIVE Steps(_, _, _, _)
Steps(rec, k, S, nontrivial) ==
  IF k > Len(rec.h.ops) THEN <<[kind |-> "stat", id |-> rec.h.id, steps |-> Len(rec.h.ops), nontrivial |-> nontrivial]>>
  ELSE LET o == rec.h.ops[k]
           S2 == Apply(S, o)
           st == rec.steps[k]
       IN If(st.panic # "", Mis(rec.h, k, "op-panic", o.r, "", st.panic)) \o
          RegMis(rec.h, k, S2, st, 1) \o RegMis(rec.h, k, S2, st, 2) \o RegMis(rec.h, k, S2, st, 3) \o
          PairMis(rec.h, k, S2, st, 0) \o
          Steps(rec, k + 1, S2, nontrivial + (IF S2 # S THEN 1 ELSE 0))

JudgeRec(rec) ==
  IF rec.hang THEN <<Mis(rec.h, Len(rec.h.ops), "hang", 0, "terminates", "no result within the deadline"),
                     [kind |-> "stat", id |-> rec.h.id, steps |-> 0, nontrivial |-> 0]>>
  ELSE Steps(rec, 1, <<{}, {}, {}>>, 0)
RECURSIVE JudgeSeq(_, _)
JudgeSeq(recs, n) == IF n > Len(recs) THEN <<>> ELSE JudgeRec(recs[n]) \o JudgeSeq(recs, n + 1)
JudgeChunk(c) == JudgeSeq(RecsOf(c), 1)

VARIABLES chunk, done
Init == chunk \in 1..CHUNKS /\ done = FALSE
Next == /\ ~done /\ done' = TRUE /\ chunk' = chunk
        /\ ndJsonSerialize(OUTDIR \o "/verdict_" \o ToString(chunk) \o ".ndjson", JudgeChunk(chunk))
Spec == Init /\ [][Next]_<<chunk, done>>
=============================================================================
