------------------------------ MODULE Analysis ------------------------------
(***************************************************************************)
(* Grammar diagnostics (C15): what the generator must report for a grammar *)
(* given as a list of rule definitions (possibly with undefined names,     *)
(* unreachable rules, left recursion, duplicate definitions).              *)
(***************************************************************************)
EXTENDS PegSem

\* first definition of each name wins (what every later stage of the generator uses)
FirstDefs(G) ==
  LET names == {G.rules[i].name : i \in 1..Len(G.rules)} IN
  [n \in names |-> G.rules[CHOOSE i \in 1..Len(G.rules) : G.rules[i].name = n /\ \A j \in 1..(i - 1) : G.rules[j].name # n].body]
Duplicates(G) == {G.rules[i].name : i \in {k \in 1..Len(G.rules) : \E j \in 1..(k - 1) : G.rules[j].name = G.rules[k].name}}
\* names referenced anywhere (every definition's body, duplicates included) without a definition
AllRefs(G) == UNION {Refs(G.rules[i].body) : i \in 1..Len(G.rules)}
Undefined(G) == AllRefs(G) \ {G.rules[i].name : i \in 1..Len(G.rules)}
\* defined rules that cannot be reached from the first rule
Unused(G) == LET B == FirstDefs(G) IN (DOMAIN B) \ Reachable(B, G.rules[1].name)
\* rules that can re-enter themselves without having consumed input
LeftRec(G) == LeftRecursive(FirstDefs(G))
HasDiagnostics(G) == Undefined(G) # {} \/ Unused(G) # {} \/ LeftRec(G) # {} \/ Duplicates(G) # {}
=============================================================================
