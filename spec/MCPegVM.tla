------------------------------- MODULE MCPegVM -------------------------------
(***************************************************************************)
(* L0: exhaustive exploration of PegVM over a file of TLC-generated        *)
(* scenarios (grammars x inputs x memo on/off), checking that the          *)
(* implementation-shaped machine agrees with the denotational semantics    *)
(* and keeps its invariants.  MC_SCEN: scenario NDJSON (from GenCorpus);   *)
(* MC_MAXIN: inputs per scenario to use.                                   *)
(***************************************************************************)
EXTENDS PegVM, Json, IOUtils

Scen == ndJsonDeserialize(IOEnv.MC_SCEN)
MAXIN == atoi(IOEnv.MC_MAXIN)
Bodies == [s \in 1..Len(Scen) |-> BodyMap(ShapeG(Core(Scen[s].grammar)))]
\* MC_SWITCH = "1": the machine runs the bodies rewritten by the transcribed optimiser passes (the invariants still
\* compare with PegSem!Eval of the ORIGINAL bodies: the design-level statement of C02 for the emitted code)
OZ == INSTANCE Optimizer WITH RewriteNullable <- FALSE, SkipThroughAll <- FALSE, FirstPasses <- 0
Switched == "MC_SWITCH" \in DOMAIN IOEnv /\ IOEnv.MC_SWITCH = "1"
InAlphaOf(s) == UNION {{Scen[s].inputs[k].r[j] : j \in 1..Len(Scen[s].inputs[k].r)} : k \in {x \in 1..Len(Scen[s].inputs) : "r" \in DOMAIN Scen[s].inputs[x]}}
RunBodies == [s \in 1..Len(Scen) |-> IF Switched THEN OZ!OptGrammarCode(Bodies[s], InAlphaOf(s), Scen[s].grammar.rules[1].name) ELSE Bodies[s]]

VARIABLES sid, iid, memoOn
vars == <<sid, iid, memoOn, pos, tix, tree, maxTok, memo, stk, st, cur, ev, nhit, nadd>>
W == Scen[sid].inputs[iid].r
Entry == Scen[sid].grammar.rules[1].name
MinI(a, b) == IF a < b THEN a ELSE b

Init == /\ sid \in 1..Len(Scen)
        /\ iid \in 1..MinI(Len(Scen[sid].inputs), MAXIN)
        /\ memoOn \in BOOLEAN
        /\ VMInit(Entry)
U == UNCHANGED <<sid, iid, memoOn>>
B == RunBodies[sid]
\* every machine action is a top-level disjunct, so that -coverage reports a count per action
Next ==
  \/ (MatchChr(W) /\ U)
  \/ (MatchRng(W) /\ U)
  \/ (MatchDot(W) /\ U)
  \/ (EvalNil /\ U)
  \/ (EvalPred /\ U)
  \/ (SeqEnter /\ U)
  \/ (SeqNext /\ U)
  \/ (SeqOk /\ U)
  \/ (SeqKo /\ U)
  \/ (AltSave /\ U)
  \/ (AltOk /\ U)
  \/ (AltRetry /\ U)
  \/ (AltKo /\ U)
  \/ (OptSave /\ U)
  \/ (OptOk /\ U)
  \/ (OptKo /\ U)
  \/ (StarSave /\ U)
  \/ (StarAgain /\ U)
  \/ (StarOut /\ U)
  \/ (PlusFirst /\ U)
  \/ (PlusLoop /\ U)
  \/ (PlusKo /\ U)
  \/ (AndSave /\ U)
  \/ (AndOk /\ U)
  \/ (AndKo /\ U)
  \/ (NotSave /\ U)
  \/ (NotOk /\ U)
  \/ (NotKo /\ U)
  \/ (CapEnter /\ U)
  \/ (CapAdd /\ U)
  \/ (CapKo /\ U)
  \/ (MemoHit(memoOn) /\ U)
  \/ (RuleEnter(memoOn, B) /\ U)
  \/ (RuleOk(memoOn) /\ U)
  \/ (RuleKo(memoOn) /\ U)
  \/ (Halt /\ U)
  \/ (SwitchDispatch(W) /\ U)
  \/ (SkipTerminal(W) /\ U)
  \/ (SkipSeq /\ U)
  \/ (SkipCap /\ U)
  \/ (SkipDrop({}) /\ U)
Spec == Init /\ [][Next]_vars

AgreeInv == Agree(Bodies[sid], W, Entry)
TokensLiveInv == TokensLive(W)
MemoConsistentInv == MemoConsistent(Bodies[sid], W)
FurthestInv == FurthestOK(W)
\* termination: the machine never gets stuck before halting (deadlock checking is on: a state
\* without successor other than accept/reject is reported)
Terminal == Done
\* non-vacuity witnesses (expected to be violated; checked in a separate run)
NoHit == nhit = 0
=============================================================================
