SPECIFICATION Spec
CONSTANTS
  Variant = "seq-any"
INVARIANT Sound
INVARIANT VariantOff
CHECK_DEADLOCK FALSE
