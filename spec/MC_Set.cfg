SPECIFICATION Spec
CONSTANTS
  U = 5
  MAXOPS = 3
INVARIANTS
  InsertRefinesUnion
  ListsWellFormed
  HasOK
  LenOK
  IntersectsOK
  UnionOK
  Case6Unreachable
  EqualOK
  ComplementOK
CHECK_DEADLOCK FALSE
