------------------------------- MODULE GenSet -------------------------------
(***************************************************************************)
(* History enumeration for the set package (C16).                          *)
(*  single: all sequences of <= K AddRange on register 1 over 0..U,        *)
(*          followed by Copy into 2 and Complement(U) into 3               *)
(*  pairs:  register 1 and 2 each built by <= 2 AddRange (all pairs, or a  *)
(*          seeded sample), then Union into 3                              *)
(*  long:   seeded random histories over 0..40 with three registers        *)
(* GEN_FAMILY, GEN_SEED, GEN_N, GEN_CHUNKS, GEN_OUT, GEN_U, GEN_K           *)
(***************************************************************************)
EXTENDS Integers, Sequences, FiniteSets, TLC, Json, IOUtils

FAMILY == IOEnv.GEN_FAMILY
SEED   == atoi(IOEnv.GEN_SEED)
N      == atoi(IOEnv.GEN_N)
CHUNKS == atoi(IOEnv.GEN_CHUNKS)
OUTDIR == IOEnv.GEN_OUT
U      == atoi(IOEnv.GEN_U)
K      == atoi(IOEnv.GEN_K)

M == 46309
Sq(x) == (x * x + 17 * x + 5) % M
H(s, i) == Sq((Sq(((s % M) * 31 + (i % 1499) * 1009 + 12347) % M) + (i % 97)) % M)
Pick(s, i, n) == (H(s, i) \div 7) % n

\* the r-th range (0-based) of 0..U in lexicographic order of <<b, e>>, b <= e
NR == ((U + 1) * (U + 2)) \div 2
RECURSIVE RangeAt(_, _)
RangeAt(r, b) == IF r < U + 1 - b THEN <<b, b + r>> ELSE RangeAt(r - (U + 1 - b), b + 1)
AddOp(reg, rg) == [op |-> "add", r |-> reg, a |-> 0, b |-> rg[1], e |-> rg[2], lim |-> 0]
Op(o, reg, a, b, lim) == [op |-> o, r |-> reg, a |-> a, b |-> b, e |-> 0, lim |-> lim]

RECURSIVE Pow(_, _)
Pow(x, k) == IF k = 0 THEN 1 ELSE x * Pow(x, k - 1)
\* sequences of exactly len ranges, index idx in 0..NR^len-1 (mixed radix)
RECURSIVE SeqAt(_, _, _)
SeqAt(idx, len, reg) == IF len = 0 THEN <<>> ELSE SeqAt(idx \div NR, len - 1, reg) \o <<AddOp(reg, RangeAt(idx % NR, 0))>>
\* all sequences of length <= K: index 0..Total-1
RECURSIVE CountUpTo(_)
CountUpTo(k) == IF k < 0 THEN 0 ELSE Pow(NR, k) + CountUpTo(k - 1)
RECURSIVE SeqOfIndex(_, _, _)
SeqOfIndex(idx, len, reg) == IF idx < Pow(NR, len) THEN SeqAt(idx, len, reg) ELSE SeqOfIndex(idx - Pow(NR, len), len + 1, reg)

SingleTotal == CountUpTo(K)
Single(n) ==   \* n in 1..SingleTotal
  [id |-> n, u |-> U, ops |-> SeqOfIndex(n - 1, 0, 1) \o <<Op("copy", 2, 1, 0, 0), Op("compl", 3, 1, 0, U)>>]

PairCount == CountUpTo(2)
PairTotal == PairCount * PairCount
Pair(n, idx) ==
  [id |-> n, u |-> U, ops |-> SeqOfIndex(idx \div PairCount, 0, 1) \o SeqOfIndex(idx % PairCount, 0, 2) \o <<Op("union", 3, 1, 2, 0)>>]
PairAt(n) == IF N >= PairTotal THEN Pair(n, n - 1) ELSE Pair(n, (H(SEED, n) * 46309 + H(SEED + 1, n)) % PairTotal)

\* random long histories; complements only of registers known to lie within 0..lim is a judge-side
\* precondition, so the generator keeps lim = U and all elements within 0..U
LongOp(s) ==
  LET k == Pick(s, 1, 12)
      b == Pick(s, 2, U + 1)
      e == Pick(s, 3, U + 1)
      reg == 1 + Pick(s, 4, 3)
      a == 1 + Pick(s, 5, 3)
      c == 1 + Pick(s, 6, 3)
  IN CASE k \in 0..6 -> AddOp(reg, <<IF b <= e THEN b ELSE e, IF b <= e THEN e ELSE b>>)
       [] k = 7 -> [op |-> "add1", r |-> reg, a |-> 0, b |-> b, e |-> 0, lim |-> 0]
       [] k = 8 -> Op("copy", reg, a, 0, 0)
       [] k \in 9..10 -> Op("union", reg, a, c, 0)
       [] k = 11 -> Op("compl", reg, a, 0, U)
Long(n) == LET s == H(SEED, n) len == 10 + Pick(s, 9, 51) IN
  [id |-> n, u |-> U, ops |-> [j \in 1..len |-> LongOp(H(s, 100 + j))]]

\* "wide": the same random histories over a universe of U + 1 ATOMS, consecutive blocks of [0, 2^31 - 1] (the whole range of
\* a rune) of very different sizes; an operation on atoms b..e is replayed on the real package as the range from the first
\* element of atom b to the last element of atom e, and the judge weighs every atom by its size (GEN_U must be 5)
Breaks == <<0, 1, 65, 1114112, 2147483646, 2147483647>>
Wide(n) == Long(n) @@ [atoms |-> Breaks, top |-> 2147483647]
Total == CASE FAMILY = "single" -> SingleTotal [] FAMILY = "pairs" -> (IF N >= PairTotal THEN PairTotal ELSE N) [] OTHER -> N
History(n) == CASE FAMILY = "single" -> Single(n) [] FAMILY = "pairs" -> PairAt(n) [] FAMILY = "wide" -> Wide(n) [] OTHER -> Long(n)

RECURSIVE Collect(_)
Collect(n) == IF n > Total THEN <<>> ELSE <<History(n)>> \o Collect(n + CHUNKS)

VARIABLES chunk, done
Init == chunk \in 1..CHUNKS /\ done = FALSE
Next == /\ ~done /\ done' = TRUE /\ chunk' = chunk
        /\ ndJsonSerialize(OUTDIR \o "/hist_" \o ToString(chunk) \o ".ndjson", Collect(chunk))
Spec == Init /\ [][Next]_<<chunk, done>>
=============================================================================
