------------------------------ MODULE MCOptimizer ------------------------------
(***************************************************************************)
(* L0 for C02: over a file of TLC-generated scenarios (the switch family), *)
(* the grammar rewritten by Optimizer!Rewrite and evaluated with the emitted   *)
(* dispatch semantics gives the verdict, end and tokens of PegSem!Eval.    *)
(***************************************************************************)
EXTENDS Optimizer, Json, IOUtils

Scen == ndJsonDeserialize(IOEnv.MC_SCEN)
MAXIN == atoi(IOEnv.MC_MAXIN)
Bodies == [s \in 1..Len(Scen) |-> BodyMap(ShapeG(Core(Scen[s].grammar)))]
InAlpha(s) == UNION {{Scen[s].inputs[k].r[j] : j \in 1..Len(Scen[s].inputs[k].r)} : k \in 1..Len(Scen[s].inputs)}
Opts == [s \in 1..Len(Scen) |-> OptGrammar(Bodies[s], InAlpha(s))]

VARIABLES sid, iid
MinI(a, b) == IF a < b THEN a ELSE b
Init == sid \in 1..Len(Scen) /\ iid \in 1..MinI(Len(Scen[sid].inputs), MAXIN)
Next == UNCHANGED <<sid, iid>>
Spec == Init /\ [][Next]_<<sid, iid>>
W == Scen[sid].inputs[iid].r
Entry == Scen[sid].grammar.rules[1].name
Sound == SwitchSound(Bodies[sid], Opts[sid], W, Entry)
\* the same statement for the grammar that the transcribed passes over the rule cache produce
OptsCode == [s \in 1..Len(Scen) |-> OptGrammarCode(Bodies[s], InAlpha(s), Scen[s].grammar.rules[1].name)]
SoundCode == SwitchSound(Bodies[sid], OptsCode[sid], W, Entry)
\* ... and, with the passes repeated until stable, that grammar is the idealised rewrite on the reachable rules
Agrees == [s \in 1..Len(Scen) |-> TranscriptionAgrees(Bodies[s], InAlpha(s), Scen[s].grammar.rules[1].name)]
TranscriptionOK == FirstPasses = 0 => Agrees[sid]
\* non-vacuity witness (expected to be violated): no scenario is rewritten at all
NothingRewritten == ~Rewritten(Opts[sid])
=============================================================================
