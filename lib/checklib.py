"""Verdict handling shared by every property check: known findings, reproduction,
VIOLATION / KNOWN-FINDING lines, evidence files, exit status."""
import hashlib
import json
import os
import re
import sys
import time

import vlib

KF_PATH = os.path.join(vlib.VERIF, "known_findings.json")
REPLAYS = os.path.join(vlib.VERIF, "replays")

LEVELS = {"exploration", "fault_enumeration", "model_checking", "proof", "translation_validation", "other"}


def load_findings(prop):
    with open(KF_PATH) as fh:
        kf = json.load(fh)
    return [f for f in kf.get("findings", []) if f["property"] == prop and f.get("status", "open") == "open"]


def _s(v):
    return v if isinstance(v, str) else json.dumps(v, sort_keys=True)


def matches(f, m):
    """Does known finding f cover mismatch record m?  All given keys must match."""
    sig = f["match"]
    for key, val in sig.items():
        if key == "field":
            if not re.fullmatch(val, m.get("field", "")):
                return False
        elif key.endswith("_re"):
            tgt = _s(m.get(key[:-3], ""))
            if not re.search(val, tgt, re.S):
                return False
        elif key == "opt_in":
            if m.get("opt", "") not in val:
                return False
        elif key == "equals":
            for k2, v2 in val.items():
                if m.get(k2) != v2:
                    return False
        elif key == "gt":      # numeric lower bounds on (dotted) fields of the record
            for k2, v2 in val.items():
                cur = m
                for part in k2.split("."):
                    cur = cur.get(part) if isinstance(cur, dict) else None
                if not isinstance(cur, (int, float)) or not cur > v2:
                    return False
        elif key == "shape":   # spec-computed predicates attached to the mismatch by the judge
            for k2, v2 in val.items():
                if m.get("shape", {}).get(k2) != v2:
                    return False
        else:
            raise vlib.Infra(f"unknown signature key {key} in finding {f['id']}")
    return True


def classify(prop, mismatches):
    """Split into (unlisted, {finding id: [records]})."""
    fs = load_findings(prop)
    unlisted, known = [], {}
    for m in mismatches:
        for f in fs:
            if matches(f, m):
                known.setdefault(f["id"], []).append(m)
                break
        else:
            unlisted.append(m)
    return unlisted, known, {f["id"]: f for f in fs}


def write_replay(prop, m):
    os.makedirs(REPLAYS, exist_ok=True)
    blob = json.dumps(m, sort_keys=True, indent=1)
    name = f"{prop}-{hashlib.sha256(blob.encode()).hexdigest()[:12]}.json"
    path = os.path.join(REPLAYS, name)
    with open(path, "w") as fh:
        fh.write(blob)
    return path


def write_evidence(prop, tier, level, coverage, wall, violations, assumptions):
    os.makedirs(vlib.EVID, exist_ok=True)
    assert level in LEVELS
    ev = dict(property_id=prop, tier=tier, seed=vlib.seed(), level=level, coverage=coverage,
              assumptions=assumptions, wall_s=round(wall, 2), violations=violations)
    tmp = os.path.join(vlib.EVID, prop + ".json.tmp")
    with open(tmp, "w") as fh:
        json.dump(ev, fh, indent=1, sort_keys=True)
    os.replace(tmp, os.path.join(vlib.EVID, prop + ".json"))


def finish(prop, tier, t0, level, coverage, mismatches, assumptions, reproduce=None, infra=None):
    """Common tail of every check.  mismatches: TLC-rejected records for this property.
    reproduce(m) -> bool re-materialises one record from scratch (None: already deterministic)."""
    if infra:
        for m in infra:
            vlib.log("INFRA:", _s(m)[:600])
        coverage = dict(coverage)
        write_evidence(prop, tier, level, coverage, time.time() - t0, 0, assumptions + ["run aborted: infrastructure mismatch"])
        print(f"NO-VERDICT property={prop} (infrastructure)")
        sys.exit(2)
    unlisted, known, fs = classify(prop, mismatches)
    confirmed = []
    seen_sig = set()
    for m in unlisted:
        sig = (m.get("field"), m.get("opt"), m.get("text", "")[:2000])
        if sig in seen_sig and len(confirmed) >= 1:
            confirmed.append(m)       # same scenario/field as one already reproduced
            continue
        seen_sig.add(sig)
        if reproduce is not None and len(confirmed) < 3:
            ok = reproduce(m)
            if not ok:
                vlib.log(f"NOTE: rejection did not reproduce, not reported: {_s(m)[:300]}")
                coverage.setdefault("unreproduced", 0)
                coverage["unreproduced"] += 1
                continue
        confirmed.append(m)
    for fid, recs in sorted(known.items()):
        print(f"KNOWN-FINDING: property={prop} {fid} {fs[fid]['what']} [{len(recs)} record(s)]")
    coverage = dict(coverage)
    coverage["known_findings_seen"] = {fid: len(r) for fid, r in known.items()}
    shown = 0
    seen_files = set()
    for m in confirmed:
        if shown >= 5:
            break
        path = write_replay(prop, m)
        if path in seen_files:
            continue
        seen_files.add(path)
        print(f"VIOLATION property={prop} replay={path}")
        vlib.log("  ", _s({k: m[k] for k in m if k not in ("text", "sc")})[:500])
        shown += 1
    write_evidence(prop, tier, level, coverage, time.time() - t0, len(confirmed), assumptions)
    if coverage.get("unreproduced") and not confirmed:
        print(f"NO-VERDICT property={prop} (rejections that did not reproduce)")
        sys.exit(2)
    sys.exit(1 if confirmed else 0)
