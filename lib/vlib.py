"""Orchestration for the TLA+ model-based checks of pointlander/peg.

Plumbing only: builds peg from /repo's working tree, runs TLC (generation, model checking,
judging), runs the Go driver, joins files, classifies TLC's verdict records against
known_findings.json and writes evidence.  No property is decided here.
"""
import atexit
import fcntl
import glob
import hashlib
import json
import os
import re
import shutil
import subprocess
import sys
import tempfile
import time

VERIF = os.path.dirname(os.path.dirname(os.path.abspath(__file__)))
REPO = os.environ.get("VERIF_REPO", "/repo")
SPEC = os.path.join(VERIF, "spec")
CACHE = os.environ.get("VERIF_CACHE") or os.path.join(VERIF, ".cache")
EVID = os.environ.get("VERIF_EVIDENCE_DIR") or os.path.join(VERIF, "evidence")
TLA_CP = "/opt/veriftools/tla/tla2tools.jar:/opt/veriftools/tla/CommunityModules-deps.jar"
NCPU = os.cpu_count() or 8


class Infra(Exception):
    """No verdict: infrastructure failure (exit 2)."""


def log(*a):
    print(*a, file=sys.stderr, flush=True)


def go_env(extra=None):
    env = dict(os.environ)
    env["GOFLAGS"] = "-mod=mod"
    env["GOPROXY"] = "off"
    env.pop("GOTOOLCHAIN", None)
    env.pop("GOSUMDB", None)
    env["GOCACHE"] = gocache()
    if extra:
        env.update(extra)
    return env


def gocache():
    d = os.path.join(CACHE, "gocache")
    os.makedirs(d, exist_ok=True)
    return d


def gocache_base(race=False):
    """A GOCACHE holding only the standard-library packages that generated parsers and shims import; every corpus
    run works on a private copy of it, so the shared cache does not grow with thousands of throw-away packages."""
    d = os.path.join(CACHE, "gocache-base-race" if race else "gocache-base")
    with Lock("gocache-base" + ("-race" if race else "")):
        if os.path.isdir(d) and os.path.exists(os.path.join(d, ".ready")):
            return d
        shutil.rmtree(d, ignore_errors=True)
        os.makedirs(d)
        w = scratch("verif-gcbase-")
        with open(os.path.join(w, "go.mod"), "w") as fh:
            fh.write("module gcbase\n\ngo 1.25\n")
        with open(os.path.join(w, "main.go"), "w") as fh:
            fh.write("package main\n\nimport (\n" + "".join(f'\t_ "{p}"\n' for p in (
                "bufio", "bytes", "crypto/sha256", "encoding/hex", "encoding/json", "flag", "fmt", "io", "os", "path/filepath", "regexp",
                "slices", "strconv", "strings", "sync", "time", "net/url", "math", "sort", "unicode", "unicode/utf8", "errors")) + ")\n\nfunc main() {}\n")
        env = go_env({"GOCACHE": d})
        r = subprocess.run(["go", "build"] + (["-race"] if race else []) + ["-o", os.path.join(w, "x"), "."], cwd=w, env=env, capture_output=True, text=True)
        if r.returncode != 0:
            raise Infra("building the base GOCACHE failed:\n" + r.stdout + r.stderr)
        open(os.path.join(d, ".ready"), "w").write("ok")
        shutil.rmtree(w, ignore_errors=True)
    return d


def private_gocache(work, race=False):
    dst = os.path.join(work, "gocache")
    shutil.copytree(gocache_base(race), dst)
    return dst


def trim_gocache(limit_gb=12):
    d = gocache()
    try:
        out = subprocess.run(["du", "-s", "-BG", d], capture_output=True, text=True).stdout
        gb = int(out.split()[0].rstrip("G"))
        if gb > limit_gb:
            log(f"[vlib] GOCACHE {gb}G > {limit_gb}G: trimming")
            shutil.rmtree(d, ignore_errors=True)
    except Exception:
        pass


_scratch = []


def scratch(prefix="verif-"):
    d = tempfile.mkdtemp(prefix=prefix)
    _scratch.append(d)
    return d


@atexit.register
def _cleanup():
    for d in _scratch:
        shutil.rmtree(d, ignore_errors=True)


def seed():
    try:
        return int(os.environ.get("VERIF_SEED", "1"))
    except ValueError:
        return 1


# ---------------------------------------------------------------------------
# /repo content hash and build products


def repo_hash():
    files = subprocess.run(["git", "-C", REPO, "ls-files", "-co", "--exclude-standard"],
                           capture_output=True, text=True, check=True).stdout.split("\n")
    h = hashlib.sha256()
    for f in sorted(x for x in files if x):
        p = os.path.join(REPO, f)
        if not os.path.isfile(p):
            continue
        h.update(f.encode())
        h.update(b"\0")
        with open(p, "rb") as fh:
            h.update(fh.read())
        h.update(b"\0")
    return h.hexdigest()[:20]


def harness_hash():
    h = hashlib.sha256()
    for root in (SPEC, os.path.join(VERIF, "harness"), os.path.join(VERIF, "lib")):
        for dp, _, fs in sorted(os.walk(root)):
            for f in sorted(fs):
                if f.endswith((".tla", ".cfg", ".go", ".txt", ".py", ".mod")) and f != "manifest_data.py":
                    h.update(f.encode())
                    with open(os.path.join(dp, f), "rb") as fh:
                        h.update(fh.read())
    return h.hexdigest()[:12]


class Lock:
    def __init__(self, name):
        os.makedirs(CACHE, exist_ok=True)
        self.path = os.path.join(CACHE, name + ".lock")

    def __enter__(self):
        self.fh = open(self.path, "w")
        fcntl.flock(self.fh, fcntl.LOCK_EX)
        return self

    def __exit__(self, *a):
        fcntl.flock(self.fh, fcntl.LOCK_UN)
        self.fh.close()


def cache_dir():
    """Per-/repo-hash cache directory; older hashes are evicted."""
    rh = repo_hash()
    d = os.path.join(CACHE, "repo-" + rh)
    if not os.path.isdir(d):
        with Lock("evict"):
            olds = sorted((p for p in glob.glob(os.path.join(CACHE, "repo-*")) if p != d), key=os.path.getmtime)
            for old in olds[:-12]:         # keep the twelve most recently used trees besides this one
                shutil.rmtree(old, ignore_errors=True)
            os.makedirs(d, exist_ok=True)
    else:
        try:
            os.utime(d)
        except OSError:
            pass
    return d


def build_peg(tags=""):
    """Build peg from /repo's working tree (optionally with -tags / -race)."""
    name = "peg" + ("-" + tags.replace(" ", "_").replace(",", "_") if tags else "")
    out = os.path.join(cache_dir(), name)
    with Lock("build-" + name):
        if os.path.exists(out):
            return out
        cmd = ["go", "build", "-o", out + ".tmp"]
        if tags == "race":
            cmd += ["-race"]
        elif tags:
            cmd += ["-tags", tags]
        cmd += ["."]
        r = subprocess.run(cmd, cwd=REPO, env=go_env(), capture_output=True, text=True)
        if r.returncode != 0:
            raise Infra("go build of /repo failed (the change does not compile?):\n" + r.stdout + r.stderr)
        os.replace(out + ".tmp", out)
    return out


def driver_bin():
    out = os.path.join(VERIF, "bin", "driver")
    src_hash = hashlib.sha256()
    hd = os.path.join(VERIF, "harness")
    for dp, _, fs in sorted(os.walk(hd)):
        for f in sorted(fs):
            with open(os.path.join(dp, f), "rb") as fh:
                src_hash.update(fh.read())
    stamp = out + ".stamp"
    want = src_hash.hexdigest()
    with Lock("driver"):
        if os.path.exists(out) and os.path.exists(stamp) and open(stamp).read() == want:
            return out
        r = subprocess.run(["go", "build", "-o", out, "./driver"], cwd=hd, env=go_env(), capture_output=True, text=True)
        if r.returncode != 0:
            raise Infra("building the driver failed:\n" + r.stdout + r.stderr)
        open(stamp, "w").write(want)
    return out


# ---------------------------------------------------------------------------
# TLC

TLC_STATS = re.compile(r"(\d+) states generated, (\d+) distinct states found")


def run_tlc(module, cfg=None, env=None, workers=None, timeout=1800, extra=None, simulate=None, check=True):
    """Run TLC on spec/<module>.tla in a scratch copy of spec/. Returns dict(rc, out, states, distinct, dir)."""
    d = scratch("verif-tlc-")
    for f in os.listdir(SPEC):
        if f.endswith((".tla", ".cfg")):
            shutil.copy(os.path.join(SPEC, f), d)
    cmd = ["java", "-XX:+UseParallelGC", "-Xss512m", "-Xmx8g", "-Dfile.encoding=UTF-8", "-cp", TLA_CP, "tlc2.TLC",
           "-workers", str(workers or NCPU), "-metadir", os.path.join(d, "meta"), "-noGenerateSpecTE"]
    if cfg:
        cmd += ["-config", cfg]
    if simulate:
        cmd += ["-simulate", simulate]
    if extra:
        cmd += extra
    cmd += [module + ".tla"]
    e = dict(os.environ)
    if env:
        e.update({k: str(v) for k, v in env.items()})
    t0 = time.time()
    try:
        r = subprocess.run(cmd, cwd=d, env=e, capture_output=True, text=True, timeout=timeout)
    except subprocess.TimeoutExpired:
        subprocess.run(["pkill", "-f", d], capture_output=True)
        raise Infra(f"TLC timed out after {timeout}s on {module}")
    out = r.stdout + r.stderr
    m = None
    for m in TLC_STATS.finditer(out):
        pass
    res = dict(rc=r.returncode, out=out, dir=d, wall=time.time() - t0,
               states=int(m.group(1)) if m else 0, distinct=int(m.group(2)) if m else 0)
    if check and r.returncode != 0:
        raise Infra(f"TLC failed on {module} (rc={r.returncode}):\n" + out[-6000:])
    return res


# ---------------------------------------------------------------------------
# parser corpus pipeline: Gen (TLC) -> driver (Go, real peg) -> Judge (TLC)

def read_ndjson(path):
    out = []
    with open(path) as fh:
        for line in fh:
            line = line.strip()
            if line:
                out.append(json.loads(line))
    return out


def materialise_and_judge(scs, tags="", l2=False):
    """Run the real peg + generated parsers on the scenarios and let TLC judge.
    Returns (mismatch records, stat records, tlc info)."""
    work = scratch("verif-corpus-")
    sdir = os.path.join(work, "scen")
    os.makedirs(sdir)
    with open(os.path.join(sdir, "scen_all.ndjson"), "w") as fh:
        for sc in scs:
            fh.write(json.dumps(sc) + "\n")
    peg = build_peg("" if tags == "racebatch" else tags)
    obs = os.path.join(work, "obs.ndjson")
    r = subprocess.run([driver_bin(), "corpus", "-scen", os.path.join(sdir, "scen_*.ndjson"), "-peg", peg,
                        "-work", work, "-out", obs, "-j", str(NCPU), "-gocache", private_gocache(work, tags == "racebatch")]
                       + (["-verif"] if tags == "verif" else [])
                       + (["-race"] if tags == "racebatch" else []),
                       capture_output=True, text=True, env=go_env())
    if r.returncode != 0:
        raise Infra("driver corpus failed:\n" + r.stdout + r.stderr)
    log("[vlib]", r.stderr.strip().split("\n")[-1])
    units = {}
    for o in read_ndjson(obs):
        units.setdefault(o["id"], []).append(o)
    joined = os.path.join(work, "joined.ndjson")
    with open(joined, "w") as fh:
        for sc in sorted(scs, key=lambda s: s["id"]):
            if sc["id"] not in units:
                raise Infra(f"no observation for scenario {sc['id']}")
            fh.write(json.dumps({"sc": sc, "units": units[sc["id"]]}) + "\n")
    vdir = os.path.join(work, "verdict")
    os.makedirs(vdir)
    jch = min(NCPU, len(scs))
    # one file per chunk, balanced by size, so that each TLC worker deserialises only what it judges
    lines = open(joined).read().split("\n")
    lines = sorted((l for l in lines if l), key=len, reverse=True)
    buckets = [[] for _ in range(jch)]
    sizes = [0] * jch
    for l in lines:
        k = sizes.index(min(sizes))
        buckets[k].append(l)
        sizes[k] += len(l)
    for k, b in enumerate(buckets):
        with open(f"{joined}_{k + 1}.ndjson", "w") as fh:
            fh.write("\n".join(b) + "\n")
    j = run_tlc("JudgeCorpus", "JudgeCorpus.cfg", env=dict(JUDGE_IN=joined, JUDGE_OUT=vdir, JUDGE_CHUNKS=jch), timeout=7200)
    files = sorted(glob.glob(os.path.join(vdir, "verdict_*.ndjson")))
    if len(files) != jch:
        raise Infra("judge did not write every chunk")
    recs = []
    for p in files:
        recs += read_ndjson(p)
    stats = [x for x in recs if x["kind"] == "stat"]
    if len(stats) != sum(len(s["optsets"]) for s in scs):
        raise Infra(f"judge judged {len(stats)} units, expected {sum(len(s['optsets']) for s in scs)}")
    mis = [x for x in recs if x["kind"] == "mis"]
    by_id = {s["id"]: s for s in scs}
    info = dict(step="judge", states=j["states"], wall=round(j["wall"], 1))
    if l2:
        # L2: validate the recorded machine-step events against PegVM
        tdir = os.path.join(work, "l2")
        os.makedirs(tdir)
        # the records are validated in chunks by TLC processes of their own (one huge constant makes TLC crawl)
        with open(joined) as fh:
            lines = [ln for ln in fh if ln.strip()]
        per = 8
        parts = []
        for k in range(0, len(lines), per):
            pth = os.path.join(work, f"l2in_{k // per}.ndjson")
            with open(pth, "w") as fh:
                fh.writelines(lines[k:k + per])
            parts.append(pth)
        import concurrent.futures
        t0l2 = time.time()
        with concurrent.futures.ThreadPoolExecutor(max_workers=max(1, NCPU // 4)) as ex:
            outs = list(ex.map(lambda pth: run_tlc("TraceVM", "TraceVM.cfg", env=dict(JUDGE_IN=pth, JUDGE_OUT=tdir), workers=4, timeout=3600, check=False), parts))
        for o in outs:
            if o["rc"] != 0 or "No error has been found" not in o["out"]:
                raise Infra("TraceVM failed (a PegVM invariant or the trace specification itself):\n" + o["out"][-3000:])
        t = dict(states=sum(o["states"] for o in outs), distinct=sum(o["distinct"] for o in outs), wall=time.time() - t0l2)
        for p in sorted(glob.glob(os.path.join(tdir, "l2_*.ndjson"))):
            for x in read_ndjson(p):
                x["prop"] = "L2"
                x["kind"] = "mis"
                mis.append(x)
        ntr = nev = nhits = nhit1 = 0
        with open(joined) as fh:
            for line in fh:
                rec = json.loads(line)
                for u in rec["units"]:
                    if u["opt"] in ("", "i", "s", "is"):
                        ntr += sum(1 for r in u["runs"] if "evs" in r and r["pn"] == "")
                        for r in u["runs"]:
                            for e in r.get("evs", []):
                                nev += 1
                                if e[0] == "hit":
                                    nhits += 1
                                    nhit1 += 1 if e[1] == 1 else 0
        info = dict(info, l2_states=t["states"], l2_distinct=t["distinct"], l2_traces=ntr, l2_wall=round(t["wall"], 1),
                    l2_events=nev, l2_memo_hits=nhits, l2_memo_hits_matched=nhit1)
    for m in mis:
        m["text"] = by_id[m["id"]]["text"]
    shutil.rmtree(work, ignore_errors=True)
    return mis, stats, info


def generate(family, n, sd, evs=False, conc=0):
    work = scratch("verif-gen-")
    chunks = min(NCPU, max(1, n // 4))
    g = run_tlc("GenCorpus", "GenCorpus.cfg", env=dict(GEN_FAMILY=family, GEN_SEED=sd, GEN_N=n, GEN_CHUNKS=chunks, GEN_OUT=work,
                                                        GEN_EVS="1" if evs else "0", GEN_CONC=str(conc)))
    scs = []
    for p in sorted(glob.glob(os.path.join(work, "scen_*.ndjson"))):
        scs += read_ndjson(p)
    shutil.rmtree(work, ignore_errors=True)
    if not scs:
        raise Infra("generator produced no scenario")
    scs.sort(key=lambda s: s["id"])
    return scs, dict(step="gen", states=g["states"], wall=round(g["wall"], 1))


def corpus_pipeline(family, n, sd, tags="", l2=False):
    """Gen (TLC) -> driver (real peg, real parsers) -> Judge (TLC) for one family; cached per
    (/repo content, machinery content, family, n, seed)."""
    key = f"corpus_{family}_{n}_{sd}_{tags or 'stock'}_{harness_hash()}.json"
    path = os.path.join(cache_dir(), key)
    with Lock("corpus-" + family):
        if os.path.exists(path):
            with open(path) as fh:
                return json.load(fh)
        scs, ginfo = generate(family, n, sd, evs=l2, conc=4 if tags == "racebatch" else 0)
        if l2:      # event traces are validated for the default option set and for -inline; in the switch family also for -switch
            keep = ["", "i", "s", "is"] if family == "switch" else ["", "i"]
            for s in scs:
                s["optsets"] = [o for o in keep if o in s["optsets"]] or [""]
        mis, stats, jinfo = materialise_and_judge(scs, tags, l2=l2)
        by_id = {s["id"]: s for s in scs}
        for m in mis:
            m["family"], m["seed"] = family, sd
        texts = {}
        for s in scs:
            texts.setdefault(s["text"], s["id"])
        res = dict(verdicts=mis, stats=stats, scenarios=len(scs), distinct_texts=len(texts),
                   scs={str(i): by_id[i] for i in {m["id"] for m in mis}},
                   inputs=sum(len(s["inputs"]) for s in scs),
                   samples=[{"grammar": s["text"].split("}\n\n", 1)[-1], "inputs": [x.get("r", x.get("b")) for x in s["inputs"][:6]],
                             "optsets": s["optsets"]} for s in scs[:3]],
                   tlc=[ginfo, jinfo])
        os.makedirs(os.path.dirname(path), exist_ok=True)
        with open(path + ".tmp", "w") as fh:
            json.dump(res, fh)
        os.replace(path + ".tmp", path)
        return res


# ---------------------------------------------------------------------------
# set package pipeline: Gen histories (TLC) -> setrun (real package) -> Judge (TLC, abstract sets)

def build_tool(name):
    """Build harness/<name> against /repo's working tree (replace => /repo)."""
    out = os.path.join(cache_dir(), name + "-" + harness_hash())
    with Lock("build-" + name):
        if os.path.exists(out):
            return out
        hdir = os.path.join(VERIF, "harness")
        if REPO != "/repo":       # the harness module pins the repository path in a replace directive
            hdir = os.path.join(scratch("verif-harness-"), "harness")
            shutil.copytree(os.path.join(VERIF, "harness"), hdir)
            gm = open(os.path.join(hdir, "go.mod")).read().replace("=> /repo", "=> " + REPO)
            open(os.path.join(hdir, "go.mod"), "w").write(gm)
        r = subprocess.run(["go", "build", "-o", out + ".tmp", "./" + name], cwd=hdir,
                           env=go_env(), capture_output=True, text=True)
        if r.returncode != 0:
            raise Infra(f"go build of harness/{name} against /repo failed (the change does not compile?):\n" + r.stdout + r.stderr)
        os.replace(out + ".tmp", out)
    return out


def set_pipeline(family, n, sd, u, k):
    key = f"set_{family}_{n}_{sd}_{u}_{k}_{harness_hash()}.json"
    path = os.path.join(cache_dir(), key)
    with Lock("set-" + family):
        if os.path.exists(path):
            with open(path) as fh:
                return json.load(fh)
        work = scratch("verif-set-")
        chunks = NCPU
        g = run_tlc("GenSet", "GenSet.cfg", env=dict(GEN_FAMILY=family, GEN_SEED=sd, GEN_N=n, GEN_CHUNKS=chunks, GEN_OUT=work, GEN_U=u, GEN_K=k), timeout=1800)
        tool = build_tool("setrun")
        joined = os.path.join(work, "joined.ndjson")
        r = subprocess.run([tool, "-scen", os.path.join(work, "hist_*.ndjson"), "-out", joined], capture_output=True, text=True)
        if r.returncode != 0:
            raise Infra("setrun failed:\n" + r.stdout + r.stderr)
        log("[vlib]", r.stderr.strip())
        nh = int(re.search(r"(\d+) histories", r.stderr).group(1))
        vdir = os.path.join(work, "verdict")
        os.makedirs(vdir)
        chunks = NCPU * 4                    # many small chunks: bounded memory per worker, good balance
        outs = [open(f"{joined}_{k + 1}.ndjson", "w") for k in range(chunks)]
        with open(joined) as fh:
            for n_, line in enumerate(fh):
                outs[n_ % chunks].write(line)
        for o in outs:
            o.close()
        j = run_tlc("JudgeSet", "JudgeSet.cfg", env=dict(JUDGE_IN=joined, JUDGE_OUT=vdir, JUDGE_CHUNKS=chunks), timeout=7200)
        files = sorted(glob.glob(os.path.join(vdir, "verdict_*.ndjson")))
        if len(files) != chunks:
            raise Infra("judge did not write every chunk")
        recs = []
        for p in files:
            recs += read_ndjson(p)
        stats = [x for x in recs if x["kind"] == "stat"]
        if len(stats) != nh:
            raise Infra(f"judge judged {len(stats)} histories, {nh} were replayed")
        mis = [x for x in recs if x["kind"] == "mis"]
        for m in mis:
            m["family"], m["seed"], m["u"] = family, sd, u
        sample = []
        with open(joined) as fh:
            for line in fh:
                sample.append(json.loads(line)["h"])
                if len(sample) >= 2:
                    break
        res = dict(verdicts=mis, histories=nh, steps=sum(x["steps"] for x in stats), nontrivial=sum(x["nontrivial"] for x in stats),
                   samples=sample, tlc=[dict(step="gen", states=g["states"], wall=round(g["wall"], 1)), dict(step="judge", states=j["states"], wall=round(j["wall"], 1))])
        shutil.rmtree(work, ignore_errors=True)
        os.makedirs(os.path.dirname(path), exist_ok=True)
        with open(path + ".tmp", "w") as fh:
            json.dump(res, fh)
        os.replace(path + ".tmp", path)
        return res


def model_check(module, cfg, timeout=1800, expect_ok=True):
    """Exhaustive TLC run of a design-level configuration (L0). Cached by spec content."""
    key = os.path.join(CACHE, f"mc_{module}_{cfg}_{harness_hash()}.json")
    with Lock("mc-" + cfg):
        if os.path.exists(key):
            with open(key) as fh:
                return json.load(fh)
        r = run_tlc(module, cfg, timeout=timeout, check=False)
        ok = r["rc"] == 0 and "No error has been found" in r["out"]
        res = dict(module=module, cfg=cfg, ok=ok, states=r["states"], distinct=r["distinct"], wall=round(r["wall"], 1),
                   tail=r["out"][-1500:] if not ok else "")
        if expect_ok and not ok:
            raise Infra(f"L0 model check {cfg} failed (specification error, not a verdict about the code):\n" + r["out"][-3000:])
        os.makedirs(os.path.dirname(key), exist_ok=True)
        with open(key, "w") as fh:
            json.dump(res, fh)
        return res


def apalache_inductive(module, cinit="ConstInit", init="Init", indinit="IndInit", inv="IndInv", step_invs=()):
    """Unbounded safety with Apalache: base case (Init => inv at length 0) and inductive step (from any state
    satisfying inv, one step preserves inv; optional action invariants hold on that step).  Cached by spec content.
    A failure is a specification error (exit 2), never a verdict about the code."""
    key = os.path.join(CACHE, f"apalache_{module}_{harness_hash()}.json")
    with Lock("apalache-" + module):
        if os.path.exists(key):
            with open(key) as fh:
                return json.load(fh)
        d = scratch("verif-apalache-")
        for f in os.listdir(SPEC):
            if f.endswith(".tla"):
                shutil.copy(os.path.join(SPEC, f), d)
        runs, t0 = [], time.time()
        for name, args in [("base", [f"--init={init}", f"--inv={inv}", "--length=0"]),
                           ("step", [f"--init={indinit}", f"--inv={inv}", "--length=1"])] + \
                          [("step:" + a, [f"--init={indinit}", f"--inv={a}", "--length=1"]) for a in step_invs]:
            try:
                r = subprocess.run(["apalache-mc", "check", f"--cinit={cinit}"] + args + [module + ".tla"], cwd=d, capture_output=True, text=True, timeout=1200)
            except (subprocess.TimeoutExpired, FileNotFoundError) as e:
                raise Infra(f"apalache-mc could not run on {module} ({name}): {e}")
            ok = r.returncode == 0 and "EXITCODE: OK" in r.stdout
            runs.append(dict(obligation=name, ok=ok))
            if not ok:
                raise Infra(f"Apalache obligation '{name}' of {module} failed (specification error, not a verdict about the code):\n" + (r.stdout + r.stderr)[-2500:])
        res = dict(module=module, tool="apalache-mc", invariant=inv, obligations=runs, wall=round(time.time() - t0, 1))
        shutil.rmtree(d, ignore_errors=True)
        os.makedirs(os.path.dirname(key), exist_ok=True)
        with open(key, "w") as fh:
            json.dump(res, fh)
        return res


def l0_pegvm(family, n, sd, maxin=60, switch=False):
    """L0: exhaustive TLC exploration of PegVM over a generated scenario file (no code involved).
    Returns states/transitions and the per-action coverage counts."""
    key = os.path.join(CACHE, f"l0vm_{family}_{n}_{sd}_{maxin}_{'sw_' if switch else ''}{harness_hash()}.json")
    with Lock("l0vm-" + family):
        if os.path.exists(key):
            with open(key) as fh:
                return json.load(fh)
        scs, _ = generate(family, n, sd)
        work = scratch("verif-l0-")
        scen = os.path.join(work, "scen.ndjson")
        with open(scen, "w") as fh:
            for sc in scs:
                fh.write(json.dumps(sc) + "\n")
        r = run_tlc("MCPegVM", "MC_VM.cfg", env=dict(MC_SCEN=scen, MC_MAXIN=maxin, MC_SWITCH=1 if switch else 0), extra=["-coverage", "1"], timeout=3600, check=False)
        ok = r["rc"] == 0 and "No error has been found" in r["out"]
        if not ok:
            raise Infra("L0 PegVM model check failed (specification-level, not a verdict about the code):\n" + r["out"][-3000:])
        acts = {}
        src = open(os.path.join(SPEC, "MCPegVM.tla")).read().split("\n")
        for m in re.finditer(r"^<Next line \d+, col \d+ to line \d+, col \d+ of module MCPegVM \((\d+) \d+ \d+ \d+\)>: (\d+):(\d+)", r["out"], re.M):
            line = src[int(m.group(1)) - 1]
            nm = re.search(r"\\/ \((\w+)", line)
            if nm:
                acts[nm.group(1)] = acts.get(nm.group(1), 0) + int(m.group(3))
        if not acts:
            raise Infra("could not read per-action coverage from TLC output")
        res = dict(family=family, scenarios=len(scs), states=r["distinct"], transitions=r["states"], wall=round(r["wall"], 1),
                   actions=acts, actions_never_taken=sorted(a for a, c in acts.items() if c == 0 and (switch or not a.startswith(("Switch", "Skip")))))
        shutil.rmtree(work, ignore_errors=True)
        os.makedirs(os.path.dirname(key), exist_ok=True)
        with open(key, "w") as fh:
            json.dump(res, fh)
        return res


# ---------------------------------------------------------------------------
# front-end harness: a copy of the repository's generated front end (peg.peg.go, package main)
# linked with harness/fe/fe_main.go.txt

def build_fe(variant="", frontend_src=None, tags=""):
    """variant names the build; frontend_src: path of the peg.peg.go to link (default: the checked-in one)."""
    out = os.path.join(cache_dir(), "fe" + ("-" + variant if variant else "") + "-" + harness_hash())
    with Lock("build-fe-" + variant):
        if os.path.exists(out):
            return out
        d = scratch("verif-fe-")
        src = open(frontend_src or os.path.join(REPO, "peg.peg.go")).read()
        # the parser struct embeds *tree.Tree; the harness substitutes a logging wrapper with the same method set
        marker = "\t*tree.Tree\n"
        if src.count(marker) != 1:
            raise Infra("cannot locate the embedded *tree.Tree in the front end's parser struct")
        open(os.path.join(d, "peg.peg.go"), "w").write(src.replace(marker, "\t*LogTree\n") + "\nvar _ = tree.New // keeps the import used\n")
        for part in ("fe_main", "fe_gate", "fe_nogate"):
            shutil.copy(os.path.join(VERIF, "harness", "fe", part + ".go.txt"), os.path.join(d, part + ".go"))
        with open(os.path.join(d, "go.mod"), "w") as fh:
            fh.write(f"module fe\n\ngo 1.25\n\nrequire github.com/pointlander/peg v0.0.0\n\nreplace github.com/pointlander/peg => {REPO}\n")
        flags = ["-race"] if tags == "race" else (["-tags", tags] if tags else [])
        r = subprocess.run(["go", "build"] + flags + ["-o", out + ".tmp", "."], cwd=d, env=go_env(), capture_output=True, text=True)
        if r.returncode != 0:
            raise Infra("building the front-end harness failed (does the change compile?):\n" + r.stdout + r.stderr)
        os.replace(out + ".tmp", out)
        shutil.rmtree(d, ignore_errors=True)
    return out


def syntax_pipeline(n, sd, mutations):
    key = os.path.join(cache_dir(), f"syntax_{n}_{sd}_{mutations}_{harness_hash()}.json")
    with Lock("syntax"):
        if os.path.exists(key):
            with open(key) as fh:
                return json.load(fh)
        scs, ginfo = generate("syntax", n, sd)
        work = scratch("verif-syntax-")
        inp = os.path.join(work, "in.ndjson")
        with open(inp, "w") as fh:
            for sc in scs:
                fh.write(json.dumps(dict(id=sc["id"], text=sc["text"])) + "\n")
        outp = os.path.join(work, "out.ndjson")
        r = subprocess.run([build_fe(), "-in", inp, "-out", outp, "-mutations", str(mutations), "-seed", str(sd)],
                           capture_output=True, text=True, timeout=1800)
        if r.returncode != 0:
            raise Infra("front-end harness failed:\n" + r.stdout[-2000:] + r.stderr[-2000:])
        outs = {}
        for o in read_ndjson(outp):
            outs.setdefault(o["id"], []).append(o)
        joined = os.path.join(work, "joined.ndjson")
        with open(joined, "w") as fh:
            for sc in scs:
                if sc["id"] not in outs:
                    raise Infra(f"no front-end result for scenario {sc['id']}")
                fh.write(json.dumps(dict(sc=sc, outs=outs[sc["id"]])) + "\n")
        vdir = os.path.join(work, "verdict")
        os.makedirs(vdir)
        ch = min(NCPU, len(scs))
        j = run_tlc("JudgeSyntax", "JudgeSyntax.cfg", env=dict(JUDGE_IN=joined, JUDGE_OUT=vdir, JUDGE_CHUNKS=ch), timeout=3600)
        recs = []
        files = sorted(glob.glob(os.path.join(vdir, "verdict_*.ndjson")))
        if len(files) != ch:
            raise Infra("judge did not write every chunk")
        for p in files:
            recs += read_ndjson(p)
        stats = [x for x in recs if x["kind"] == "stat"]
        if len(stats) != len(scs):
            raise Infra("judge did not judge every scenario")
        mis = [x for x in recs if x["kind"] == "mis"]
        by = {s["id"]: s for s in scs}
        for m in mis:
            m["text"] = by[m["id"]]["text"]
            m["seed"] = sd
        res = dict(verdicts=mis, scenarios=len(scs), outs=sum(x["outs"] for x in stats), rejected=sum(x["rejected"] for x in stats),
                   accepted=sum(x["accepted"] for x in stats),
                   samples=[dict(style=s["style"], text=s["text"].split("}", 1)[-1][:300]) for s in scs[:4]],
                   tlc=[ginfo, dict(step="judge", wall=round(j["wall"], 1))])
        shutil.rmtree(work, ignore_errors=True)
        os.makedirs(os.path.dirname(key), exist_ok=True)
        with open(key, "w") as fh:
            json.dump(res, fh)
        return res


def l0_optimizer(n, sd, maxin=200):
    """L0 for C02: Optimizer!Rewrite + emitted dispatch semantics against PegSem!Eval over the switch family;
    the variant transcribing the pinned (unrepaired) rules must be refuted (the model has teeth)."""
    key = os.path.join(CACHE, f"l0opt_{n}_{sd}_{maxin}_{harness_hash()}.json")
    with Lock("l0opt"):
        if os.path.exists(key):
            with open(key) as fh:
                return json.load(fh)
        scs, _ = generate("switch", n, sd)
        work = scratch("verif-l0opt-")
        scen = os.path.join(work, "scen.ndjson")
        with open(scen, "w") as fh:
            for sc in scs:
                fh.write(json.dumps(sc) + "\n")
        r = run_tlc("MCOptimizer", "MC_Optimizer.cfg", env=dict(MC_SCEN=scen, MC_MAXIN=maxin), timeout=3600, check=False)
        if r["rc"] != 0 or "No error has been found" not in r["out"]:
            raise Infra("L0 Optimizer model check failed (specification-level, not a verdict about the code):\n" + r["out"][-3000:])
        p = run_tlc("MCOptimizer", "MC_Optimizer_pinned.cfg", env=dict(MC_SCEN=scen, MC_MAXIN=maxin), timeout=3600, check=False)
        q = run_tlc("MCOptimizer", "MC_Optimizer_onepass.cfg", env=dict(MC_SCEN=scen, MC_MAXIN=maxin), timeout=3600, check=False)
        res = dict(scenarios=len(scs), states=r["distinct"], transitions=r["states"], wall=round(r["wall"], 1),
                   pinned_rules_refuted="Invariant Sound is violated" in p["out"],
                   single_analysis_pass_refuted="Invariant SoundCode is violated" in q["out"])
        shutil.rmtree(work, ignore_errors=True)
        os.makedirs(os.path.dirname(key), exist_ok=True)
        with open(key, "w") as fh:
            json.dump(res, fh)
        return res


def l0_always(n, sd, maxin=60):
    """L0 for the always-succeeds test (AlwaysSucceeds.tla, transcription of node.CheckAlwaysSucceeds): every rule the
    transcribed test accepts succeeds from every offset of every scenario input (PegSem!Eval), over the well-formed
    scenarios of the families core and act; two unsound variants (! and the first operand of a sequence taken to
    succeed) must be refuted and some rule must be accepted (the model has teeth and is not vacuous)."""
    key = os.path.join(CACHE, f"l0always_{n}_{sd}_{maxin}_{harness_hash()}.json")
    with Lock("l0always"):
        if os.path.exists(key):
            with open(key) as fh:
                return json.load(fh)
        scs = []
        for fam in ("core", "act"):
            scs += [s for s in generate(fam, n, sd)[0] if not s.get("norun")]
        work = scratch("verif-l0always-")
        scen = os.path.join(work, "scen.ndjson")
        with open(scen, "w") as fh:
            for sc in scs:
                fh.write(json.dumps(sc) + "\n")
        env = dict(MC_SCEN=scen, MC_MAXIN=maxin)
        r = run_tlc("MCAlways", "MC_Always_code.cfg", env=env, timeout=3600, check=False)
        if r["rc"] != 0 or "No error has been found" not in r["out"]:
            raise Infra("L0 AlwaysSucceeds model check failed (specification-level, not a verdict about the code):\n" + r["out"][-3000:])
        outs = {v: run_tlc("MCAlways", f"MC_Always_{v}.cfg", env=env, timeout=3600, check=False)["out"] for v in ("nottrue", "seqany", "predtrue", "vacuity")}
        res = dict(scenarios=len(scs), states=r["distinct"], transitions=r["states"], wall=round(r["wall"], 1),
                   invariants=["Sound", "VariantOff", "Lemmas (ShortcutIdle, AcceptedNullable)"],
                   variant_not_true_refuted="Invariant Sound is violated" in outs["nottrue"],
                   variant_seq_any_refuted="Invariant Sound is violated" in outs["seqany"],
                   variant_pred_true_refuted="Invariant Sound is violated" in outs["predtrue"],
                   some_rule_accepted="Invariant NoneAccepted is violated" in outs["vacuity"])
        if not (res["variant_not_true_refuted"] and res["variant_seq_any_refuted"] and res["some_rule_accepted"]):
            raise Infra("L0 AlwaysSucceeds: an unsound variant was not refuted or no rule is accepted (vacuous model run): " + json.dumps(res))
        shutil.rmtree(work, ignore_errors=True)
        os.makedirs(os.path.dirname(key), exist_ok=True)
        with open(key, "w") as fh:
            json.dump(res, fh)
        return res


def sched_pipeline(n, sd, nrandom):
    """L3 for C09: gate-hook replay of TLC-generated interleavings of the two analysis goroutines."""
    key = os.path.join(cache_dir(), f"sched_{n}_{sd}_{nrandom}_{harness_hash()}.json")
    with Lock("sched"):
        if os.path.exists(key):
            with open(key) as fh:
                return json.load(fh)
        scs, _ = generate("diag", n, sd)
        scs2, _ = generate("switch", max(4, n // 3), sd)
        texts = [s["text"] for s in scs] + [s["text"] for s in scs2]
        fe = build_fe("gate", tags="verif")
        work = scratch("verif-sched-")
        def run(records, name):
            inp, outp = os.path.join(work, name + ".in"), os.path.join(work, name + ".out")
            with open(inp, "w") as fh:
                for r in records:
                    fh.write(json.dumps(r) + "\n")
            r = subprocess.run([fe, "-gate", "-in", inp, "-out", outp], capture_output=True, text=True, timeout=3600)
            if r.returncode != 0:
                raise Infra("gate replay failed (is the gate hook present in /repo?):\n" + r.stdout[-1500:] + r.stderr[-1500:])
            return read_ndjson(outp)
        free = run([dict(id=i + 1, text=t, scheds=[]) for i, t in enumerate(texts)], "free")
        counts = os.path.join(work, "counts.ndjson")
        usable = [o for o in free if o["runs"][0]["panic"] == "" and o["runs"][0]["ncount"] + o["runs"][0]["nrec"] > 0]
        with open(counts, "w") as fh:
            for o in usable:
                fh.write(json.dumps(dict(id=o["id"], nc=o["runs"][0]["ncount"], nr=o["runs"][0]["nrec"])) + "\n")
        sfile = os.path.join(work, "scheds.ndjson")
        g = run_tlc("SchedIO", "SchedIO.cfg", env=dict(SCHED_MODE="gen", SCHED_IN=counts, SCHED_OUT=sfile, SCHED_SEED=sd, SCHED_N=nrandom), workers=1)
        scheds = {x["id"]: x["scheds"] for x in read_ndjson(sfile)}
        replay = run([dict(id=o["id"], text=texts[o["id"] - 1], scheds=[[]] + scheds[o["id"]]) for o in usable], "replay")
        jin = os.path.join(work, "judge.in")
        with open(jin, "w") as fh:
            for o in replay:
                fh.write(json.dumps(dict(id=o["id"], runs=o["runs"])) + "\n")
        vfile = os.path.join(work, "verdict.ndjson")
        j = run_tlc("SchedIO", "SchedIO.cfg", env=dict(SCHED_MODE="judge", SCHED_IN=jin, SCHED_OUT=vfile, SCHED_SEED=sd, SCHED_N=nrandom), workers=1, timeout=3600)
        recs = read_ndjson(vfile)
        stats = [x for x in recs if x["kind"] == "stat"]
        if len(stats) != len(replay):
            raise Infra("schedule judge did not judge every grammar")
        if any(x["kind"] == "infra" for x in recs):
            raise Infra("a replayed schedule stalled (machine overloaded?): " + json.dumps([x for x in recs if x["kind"] == "infra"][:2]))
        mis = [x for x in recs if x["kind"] == "mis"]
        for m in mis:
            m["text"] = texts[m["id"] - 1]
            m["got"] = json.loads(json.dumps(m["got"])[:3000]) if len(json.dumps(m["got"])) <= 3000 else json.dumps(m["got"])[:3000]
        res = dict(verdicts=mis, grammars=len(replay), schedules=sum(x["runs"] for x in stats), steps=sum(x["steps"] * x["runs"] for x in stats),
                   warned=sum(1 for x in stats if x["warned"]),
                   sample=dict(grammar=texts[usable[0]["id"] - 1].split("}\n\n", 1)[-1], schedule="".join(scheds[usable[0]["id"]][4]) if scheds[usable[0]["id"]][4:] else ""),
                   tlc=[dict(step="gen", wall=round(g["wall"], 1)), dict(step="judge", wall=round(j["wall"], 1))])
        shutil.rmtree(work, ignore_errors=True)
        os.makedirs(os.path.dirname(key), exist_ok=True)
        with open(key, "w") as fh:
            json.dump(res, fh)
        return res


def conc_compile(n, sd):
    """C09: N independent trees compiled concurrently in one process, under the race detector."""
    key = os.path.join(cache_dir(), f"conc_{n}_{sd}_{harness_hash()}.json")
    with Lock("conc"):
        if os.path.exists(key):
            with open(key) as fh:
                return json.load(fh)
        scs, _ = generate("diag", n, sd)
        scs2, _ = generate("switch", n, sd)
        texts = [s["text"] for s in scs] + [s["text"] for s in scs2]
        work = scratch("verif-conc-")
        inp, outp = os.path.join(work, "in.ndjson"), os.path.join(work, "out.ndjson")
        with open(inp, "w") as fh:
            for i, t in enumerate(texts):
                fh.write(json.dumps(dict(id=i + 1, text=t)) + "\n")
        r = subprocess.run([build_fe("race", tags="race"), "-conc", "8", "-in", inp, "-out", outp], capture_output=True, text=True, timeout=3600,
                           env=dict(os.environ, GORACE="halt_on_error=0"))
        race = "DATA RACE" in r.stderr
        if r.returncode not in (0, 66) or (r.returncode == 66 and not race):
            raise Infra("concurrent compile harness failed:\n" + r.stderr[-2000:])
        recs = read_ndjson(outp) if os.path.exists(outp) else []
        res = dict(texts=len(texts), race=race, race_report=r.stderr[:3000] if race else "", recs=recs)
        shutil.rmtree(work, ignore_errors=True)
        os.makedirs(os.path.dirname(key), exist_ok=True)
        with open(key, "w") as fh:
            json.dump(res, fh)
        return res
