"""Registration data for MANIFEST.json (kept in one place; bin/mkmanifest writes the file)."""
import json, os

ALL = [f"C{i:02d}" for i in range(1, 19)]

L1 = ("TLC-generated grammars and inputs are run through the real peg and the parsers it generates; TLC re-reads the recorded "
      "observations and accepts a record only if it equals what the TLA+ requirement (PegSem/TokenConsumers) derives. ")

CLAIMED = {
    "C01": dict(text=L1 + "Decides verdict and consumed prefix for default options, every reachable rule as entry. Also: literals and classes spelled with every escape style (family lex), ranges written the wrong way round, and Parse called twice on one instance without Reset (a failed parse leaves nothing behind, a successful one is continued), judged against PegSem. L0 also covers the test behind unguarded rule calls: AlwaysSucceeds.tla transcribes CheckAlwaysSucceeds, TLC checks that every accepted rule succeeds at every offset (two unsound variants refuted), and the call sites read from the emitted source are compared with the transcription (drift reported in the evidence).",
                tech="TLA+ denotational PEG semantics (PegSem!Eval) as oracle; TLC-enumerated grammars x inputs; conformance of recorded API observations judged by TLC", ref="5 C01"),
    "C03": dict(text=L1 + "Decides the exact token sequence (rule, begin, end in runes) of every accepted input, incl. multi-byte and multi-line inputs.",
                tech="TLA+ PegSem!Eval token semantics as oracle; recorded Tokens() judged by TLC", ref="5 C03"),
    "C04": dict(text=L1 + "Decides the Execute() action trace (which actions, order, text/begin/end of the last completed capture). Also after a second Parse without Reset: Execute runs the actions of the derivation that succeeded, and only those.",
                tech="TLA+ TokenConsumers!ExecWithText over PegSem!Eval; recorded probe log judged by TLC", ref="5 C04"),
    "C05": dict(text=L1 + "Decides the AST() shape (pre-order depth/rule/span) and the printed syntax tree against the declarative derivation tree; for a pinned byte-class grammar also under uint8 (memo on and off) with inputs whose byte length exceeds the index type while runes and tokens fit.",
                tech="TLA+ TokenConsumers!DerivTree/PrintLines; recorded AST walk and printer output judged by TLC", ref="5 C05"),
    "C02": dict(text="L0: Optimizer.tla transcribes the -switch rewrite (first sets, consumes, intersection threshold, ordered/unordered split, default case) and the emitted dispatch semantics (one case, no fall-through, skipped first test); TLC checks on the switch family that the rewritten grammar gives PegSem!Eval's verdict, end and tokens, and refutes the variants with the pinned tree's rules (nullable alternatives, skip propagation, single analysing pass over the rule cache); the cache passes are transcribed as the code runs them and shown to compute the idealised rewrite. PegVM with dispatch nodes is model-checked on the rewritten bodies against Eval of the original ones, and the hook events of -switch and -inline -switch parsers are validated against it (L2). " + L1 + "Decides that the parsers generated with -inline, -switch and both give the same verdict, consumed prefix and token sequence as the default parser, on a family built around choices of >= 3 consuming alternatives (the shape -switch rewrites) and on the general family.",
                tech="TLA+ Optimizer model checked against PegSem!Eval; TLC-judged equality of observations across the four option sets over TLC-generated grammars (switch-shaped and random families)", ref="5 C02"),
    "C07": dict(text=L1 + "Decides that -noast parsers (x -inline/-switch) give the default parser's verdict and that the inline action log equals PegSem!NoAstLog (actions when reached, text = last completed capture in execution order). Also with non-ASCII input and for Parse called twice without Reset (verdicts compared with the default parser's for the same call sequence).",
                tech="TLA+ PegSem!NoAstLog as oracle for the recorded inline action log; TLC-judged verdict equality across the eight option sets", ref="5 C07"),
    "C11": dict(text=L1 + "Decides verdict, the furthest-token rule (first non-empty token reaching the furthest offset) and the message fields (rule, 1-based line/column of begin and end, quoted text), incl. multi-line and multi-byte inputs.",
                tech="TLA+ PegSem!ErrTok and TokenConsumers!ErrorFields as oracle; recorded parse error judged by TLC", ref="5 C11"),
    "C12": dict(text=L1 + "Decides that every step of TLC-generated histories on one long-lived instance (Buffer; Reset; Parse; Execute; AST) equals the fresh-instance observation of that input, across Size {unset,1,4096}, U {uint16,uint32,uint64,uint}, and for default, -inline -switch and -noast parsers. Includes a pinned line-oriented grammar whose inputs fail on later lines (line/column positions of one input after another on the same instance).",
                tech="TLC-generated reuse histories replayed on the real parsers; TLC-judged equality with fresh-instance observations", ref="5 C12"),
    "C13": dict(text=L1 + "Decides no panic / verdict in {nil, parse error} / token offsets index []rune(Buffer) for byte-level inputs (NUL, invalid UTF-8, surrogates, non-BMP, U+10FFFF) with full PegSem!Eval equality on the rune sequence Go derives (a wrong verdict or token on a byte input is a C13 violation: the parser did not work on []rune(Buffer)); scenario 1 is a pinned grammar whose tokens tell ASCII / Latin-1 / U+FFFD / astral runes apart.",
                tech="TLA+ PegSem!Eval over the rune view of TLC-generated byte strings; recorded panics/tokens judged by TLC", ref="5 C13"),
    "C08": dict(cat="exploration", text="TLC enumerates the scenario space (TLC-generated grammar families x the eight option sets, plus spec-rendered stress shapes: 300/1000/3000 rules, user imports plain/aliased/grouped/duplicating the runtime's, header comments, control/quote/non-ASCII characters up to U+10FFFF in literals and classes, predicates and actions containing comments and braces, 140 rules with actions, an unused rule in the middle, text without capture); the real peg generates, and the Go toolchain's verdicts (exit status, compiles, gofmt-idempotent, silent) are recorded and judged by TLC as plain booleans. 'Is valid gofmt-clean Go' is an external atomic predicate, so this is exploration, not model checking.",
                tech="TLA+-enumerated scenario space (GenCorpus families + stress shapes rendered by the spec); go build / go/format as external atomic predicates; TLC judges the recorded booleans", ref="5 C08 and 6",
                note="The judgement 'parses, type-checks, compiles, is gofmt-clean' is the Go toolchain's; user actions are valid Go by construction; rule names avoid the generator's identifiers."),
    "C09": dict(text="L0: TLC explores every interleaving of the two analysis goroutines and the main goroutine of Compile (AnalysisConc.tla) and checks that the walkers only read the original tree, that the -switch rewrite starts after both finished and that counts, reachability and warnings do not depend on the schedule. L3: TLC enumerates interleavings of the two walkers (sequential orders, alternations, seeded merges; all behaviours of AnalysisConc) and each is forced on the real goroutines through the verif gate hook; TLC accepts a grammar only if every run followed its schedule, each walker's event sequence, the bytes and the warnings are schedule-independent, and main passed the wait after both walkers and rewrote after the wait. Observable half: TLC-generated grammars (incl. grammars with several diagnostics) x option sets are generated repeatedly by the real binary under GOMAXPROCS 1/2/16 and by the race-detector build; TLC accepts a unit only if bytes, diagnostics and exit status are identical in all runs and no race was reported.",
                tech="TLA+ AnalysisConc (all interleavings, confluence); TLC-enumerated schedules replayed on the real goroutines through a gate hook and judged by TLC; TLC-judged equality of repeated generations under different GOMAXPROCS; Go race detector as external monitor", ref="5 C09",
                note="Data-race freedom on memory is the race detector's verdict on the schedules that occur; enumerated schedules are at the granularity of rule visits. Independent trees are also compiled concurrently (8 goroutines) in one race-detector process and compared with their sequential results."),
    "C10": dict(text="Round trip through the specification's own printer: TLC renders TLC-generated abstract grammars (every construct, alphabet with quotes, brackets, dash, caret, backslash, control characters, Latin-1, BMP, non-BMP, U+10FFFF) under 13 documented spellings; the real front end parses each text and TLC accepts the dumped rule tree only if it is PegSyntax!Desugar of the abstract grammar (the documented meaning of each construct) and imports keep path and alias; the builder calls the real actions make are recorded and must be a behaviour of TreeBuilder.tla (one action per Add* method) that keeps the stack discipline and builds that tree. Seeded mutants of every text must be rejected or give rules, never crash.",
                tech="TLA+ PegSyntax!Render / Desugar as executable concrete-syntax specification; dumped front-end trees and recorded builder-call traces (TreeBuilder.tla) judged by TLC; driver-side seeded mutation for malformed text", ref="5 C10 and 6",
                note="The space of non-grammars is not enumerable from a specification of grammars: mutants are judged for crash-freedom and non-emptiness only. TLC and the front-end harness are trusted."),
    "C14": dict(text="L0: TLC checks PegRuntime (N instances, the documented call sequence per instance) for Confinement and FreshEquivalence. Conformance: interleavings of two instances' call sequences that are behaviours of PegRuntime (all C(10,5) merges, sampled, plus the lock-step ones), with one shared Size option value, are replayed on the real parsers in one goroutine, and 4 goroutines x instances run concurrently in a batch binary built with the race detector; TLC accepts an instance's observation only if it equals its solo observation, and a race report is a rejection. Four of the twelve interleavings of every scenario contain a second Parse without Reset and are compared with the same call sequence run alone; PegRuntime's invariants are also discharged as an inductive invariant by Apalache.",
                tech="TLA+ PegRuntime interleavings replayed on the real parsers, TLC-judged equality with solo observations; Go race detector as external monitor", ref="5 C14",
                note="Interleavings are enumerated at the granularity of API calls; finer interleavings inside a call are only reached by the concurrent runs, whose schedules are whatever occurs (race detector)."),
    "C15": dict(text="TLC generates grammars that need not be well formed (undefined names, unreachable rules, left recursion under every operator, duplicate definitions), renders them, the real peg is run with and without -strict, and TLC accepts the recorded diagnostics and exit status only if they are what Analysis.tla derives (Undefined, Unused, LeftRec via PegSem!LeftRecursive, Duplicates; -strict exit iff any; silence iff none). Rule names include ones that look like the generator's own (Action, ActionList, ...).",
                tech="TLA+ Analysis/PegSem definitions of the diagnostic sets as oracle; recorded stderr diagnostics and exit status judged by TLC", ref="5 C15",
                note="Left-recursion verdicts are judged only for grammars without undefined names and duplicates (otherwise 'can re-enter without consuming' is not well defined); actions are not generated in this family (an action inside an unreachable rule is reported as an unused pseudo-rule); TLC and the driver are trusted."),
    "C16": dict(text="L0: TLC exhaustively checks IntervalSet (interval list with the seven-case insertion, sentinels and observers transcribed from set/set.go) against the abstract set layer for universe 0..5 and <= 3 operations. Conformance: TLC-generated histories (all sequences of <= 3 AddRange over 0..5, pairs of sets with Union, seeded long histories with Copy/Union/Complement over 0..40) are replayed on the real package, every observer recorded after every step, and TLC accepts a history only if each observation is what the abstract sets give; panics and hangs are observations. Family wide replays the same histories over six blocks covering the whole range of a rune, 0..2^31-1 (Len weighed by block size in two-limb arithmetic, Has at both ends of each block).",
                tech="TLA+ IntervalSet (abstract sets + transcribed interval list, TLC refinement check) and trace validation of replayed TLC histories against the abstract layer", ref="5 C16",
                note="Assumes elements within 0..U and begin <= end; Complement(limit) on sets within 0..limit; TLC and the replay tool (no oracle inside) are trusted."),
    "C17": dict(text="The bootstrap chain is run in a scratch copy and must reproduce peg.peg.go byte for byte (Bootstrap.tla states the chain as a fixed point); front ends regenerated from peg.peg under the four AST option sets must build the same rule tree and emit the same code as the checked-in front end on every text of a corpus (TLC-rendered spellings, shipped and bootstrap grammars, peg.peg); shipped grammars generate silently under -strict and their parsers agree across option sets on samples, character mutants and keyword-substitution mutants. TLC judges the recorded equalities.",
                tech="TLA+ Bootstrap fixed-point statement; regenerated front ends and shipped parsers compared on recorded behaviour, judged by TLC", ref="5 C17 and 6",
                note="File and behaviour equality are external atomic predicates; the interesting assurance about the front end as a generated parser comes from the other checks applied to generated parsers in general."),
    "C18": dict(text="L0: TLC checks the step machine of main.go (Cli.tla: open input, open and truncate output, read, parse, compile, report) against the requirement CliReqs!CliReq for all 2 880 scenarios. Conformance: every scenario is run on the real binary (stdin piped, /dev/full as write-fault destination, pre-existing longer destination) and TLC accepts the recorded exit status, stderr and destination state only if CliReq holds. Scenarios include surplus arguments after the grammar file and a grammar with a 100 000-character line.",
                tech="TLA+ Cli step machine model-checked against CliReq; exhaustive scenario replay on the real binary judged by TLC", ref="5 C18",
                note="Completeness of the written parser is an external atomic predicate (byte equality with a reference generation below the header line, go/parser); TLC and the driver are trusted."),
    "C06": dict(text=L1 + "Decides that DisableMemoize and default parsers give identical verdict, tokens and error token on every input.",
                tech="TLC-judged equality of memo-on and memo-off observations over TLC-generated backtracking grammars", ref="5 C06"),
}

NOTE = ("Assumes: TLC evaluates the specification correctly; the Go driver/shim record faithfully (no oracle inside); grammars are the "
        "well-formed ones of the generator families (bounded depth, <= 4 rules, small alphabets); inputs bounded (exhaustive to length 3 "
        "plus seeded longer ones).")


def manifest():
    checks = []
    for pid in ALL:
        if pid not in CLAIMED:
            continue
        c = CLAIMED[pid]
        checks.append(dict(
            property_id=pid,
            quick_cmd=f"bin/check {pid} --tier quick",
            thorough_cmd=f"bin/check {pid} --tier thorough",
            evidence_file=f"/verif/evidence/{pid}.json",
            replay_cmd_template=f"bin/check {pid} --replay {{path}}",
            engine="tlc-corpus",
            level_claimed=dict(category=c.get("cat", "model_checking"), text=c["text"], design_ref="DESIGN.md section " + c["ref"]),
            level_note=c.get("note", NOTE),
            technique=c["tech"]))
    na = [dict(property_id=p, reason="check not built yet in this round (planned: see DESIGN.md section 5); no claim made")
          for p in ALL if p not in CLAIMED]
    return dict(
        version=1,
        setup_cmd="bin/setup",
        hooks=dict(guard="verif", enable="go build -tags verif . (checks build /repo's working tree themselves; the tagged generator emits a VerifHook field and guarded event calls in AST-mode parsers)",
                   baseline_off_cmd="cd /repo && GOFLAGS=-mod=mod GOPROXY=off go test -vet=off -count=1 . ./set",
                   source_commits=['a22e6e250a4c7edbe4f1b9d6715266ce779abb6b', '4ed54f0bb2e749713fd0db18e271d5928343aed4', 'e3b78a535c2c0784d8b1f42ca9809c1744b8ee47'], add_only=True),
        engines=[dict(name="tlc-corpus", path="/verif/bin/check", serves_properties=sorted(CLAIMED),
                      kind_free_text="TLA+ spec (spec/*.tla) + TLC as scenario generator and conformance judge; Go driver materialises scenarios on the real peg")],
        checks=checks,
        notes="See DESIGN.md. Known findings: known_findings.json. Checks rebuild peg from /repo's working tree (content-hash keyed cache under /verif/.cache).",
        not_applicable=na)
