"""Registration data for MANIFEST.json (kept in one place; bin/mkmanifest writes the file)."""
import json, os

ALL = [f"C{i:02d}" for i in range(1, 19)]

L1 = ("TLC-generated grammars and inputs are run through the real peg and the parsers it generates; TLC re-reads the recorded "
      "observations and accepts a record only if it equals what the TLA+ requirement (PegSem/TokenConsumers) derives. ")

CLAIMED = {
    "C01": dict(text=L1 + "Decides verdict and consumed prefix for default options, every reachable rule as entry.",
                tech="TLA+ denotational PEG semantics (PegSem!Eval) as oracle; TLC-enumerated grammars x inputs; conformance of recorded API observations judged by TLC", ref="5 C01"),
    "C03": dict(text=L1 + "Decides the exact token sequence (rule, begin, end in runes) of every accepted input, incl. multi-byte and multi-line inputs.",
                tech="TLA+ PegSem!Eval token semantics as oracle; recorded Tokens() judged by TLC", ref="5 C03"),
    "C04": dict(text=L1 + "Decides the Execute() action trace (which actions, order, text/begin/end of the last completed capture).",
                tech="TLA+ TokenConsumers!ExecWithText over PegSem!Eval; recorded probe log judged by TLC", ref="5 C04"),
    "C05": dict(text=L1 + "Decides the AST() shape (pre-order depth/rule/span) and the printed syntax tree against the declarative derivation tree.",
                tech="TLA+ TokenConsumers!DerivTree/PrintLines; recorded AST walk and printer output judged by TLC", ref="5 C05"),
    "C06": dict(text=L1 + "Decides that DisableMemoize and default parsers give identical verdict, tokens and error token on every input.",
                tech="TLC-judged equality of memo-on and memo-off observations over TLC-generated backtracking grammars", ref="5 C06"),
}

NOTE = ("Assumes: TLC evaluates the specification correctly; the Go driver/shim record faithfully (no oracle inside); grammars are the "
        "well-formed ones of the generator families (bounded depth, <= 4 rules, small alphabets); inputs bounded (exhaustive to length 3 "
        "plus seeded longer ones).")


def manifest():
    checks = []
    for pid in ALL:
        if pid not in CLAIMED:
            continue
        c = CLAIMED[pid]
        checks.append(dict(
            property_id=pid,
            quick_cmd=f"bin/check {pid} --tier quick",
            thorough_cmd=f"bin/check {pid} --tier thorough",
            evidence_file=f"/verif/evidence/{pid}.json",
            replay_cmd_template=f"bin/check {pid} --replay {{path}}",
            engine="tlc-corpus",
            level_claimed=dict(category=c.get("cat", "model_checking"), text=c["text"], design_ref="DESIGN.md section " + c["ref"]),
            level_note=c.get("note", NOTE),
            technique=c["tech"]))
    na = [dict(property_id=p, reason="check not built yet in this round (planned: see DESIGN.md section 5); no claim made")
          for p in ALL if p not in CLAIMED]
    return dict(
        version=1,
        setup_cmd="bin/setup",
        hooks=dict(guard="verif", enable="go build -tags verif (checks build /repo's working tree themselves)",
                   baseline_off_cmd="cd /repo && GOFLAGS=-mod=mod GOPROXY=off go test -vet=off -count=1 . ./set",
                   source_commits=[], add_only=True),
        engines=[dict(name="tlc-corpus", path="/verif/bin/check", serves_properties=sorted(CLAIMED),
                      kind_free_text="TLA+ spec (spec/*.tla) + TLC as scenario generator and conformance judge; Go driver materialises scenarios on the real peg")],
        checks=checks,
        notes="See DESIGN.md. Known findings: known_findings.json. Checks rebuild peg from /repo's working tree (content-hash keyed cache under /verif/.cache).",
        not_applicable=na)
