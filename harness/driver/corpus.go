package main

import (
	"bufio"
	"bytes"
	"context"
	_ "embed"
	"encoding/json"
	"errors"
	"flag"
	"fmt"
	"go/format"
	"os"
	"os/exec"
	"path/filepath"
	"regexp"
	"sort"
	"strings"
	"sync"
	"time"
)

//go:embed shim_ast.go.txt
var shimAst string

//go:embed shim_noast.go.txt
var shimNoast string

type scenario struct {
	ID      int      `json:"id"`
	Text    string   `json:"text"`
	Optsets []string `json:"optsets"`
	AllU    bool     `json:"allu"`
	NoRun   bool     `json:"norun"` // generate and compile only (grammars that are not well-formed are never executed)
	raw     []byte
}

type genObs struct {
	Exit     int    `json:"exit"`
	Stderr   string `json:"stderr"`
	HasOut   bool   `json:"hasout"`
	Compiles bool   `json:"compiles"`
	Msg      string `json:"msg"`
	Gofmt    bool   `json:"gofmt"`
	Timeout  bool   `json:"timeout"`
	NSwitch  int    `json:"nswitch"` // occurrences of a generated rune switch (non-vacuity of -switch scenarios)
	NInline  int    `json:"nnil"`    // nil entries in the rule table (inlined or unused rules)
	Diags    [][2]string `json:"diags"` // diagnostics found on stderr: kind, rule
	// rule calls in the emitted source, by whether the call's verdict is tested (`if !_rules[ruleX]() {`)
	// or ignored (`_rules[ruleX]()`): the observable outcome of node.CheckAlwaysSucceeds
	Unguarded []string `json:"unguarded"`
	Guarded   []string `json:"guarded"`
}

var ruleCallRe = regexp.MustCompile(`(if !)?_rules\[rule([^\]]+)\]\(\)`)

// ruleCalls lists the distinct rule names called with / without a test of the verdict (sorted, never nil).
func ruleCalls(src []byte) (unguarded, guarded []string) {
	u, g := map[string]bool{}, map[string]bool{}
	for _, m := range ruleCallRe.FindAllSubmatch(src, -1) {
		if len(m[1]) > 0 {
			g[string(m[2])] = true
		} else {
			u[string(m[2])] = true
		}
	}
	unguarded, guarded = []string{}, []string{}
	for k := range u {
		unguarded = append(unguarded, k)
	}
	for k := range g {
		guarded = append(guarded, k)
	}
	sort.Strings(unguarded)
	sort.Strings(guarded)
	return
}

var diagRes = []struct {
	kind string
	re   *regexp.Regexp
}{
	{"undefined", regexp.MustCompile(`rule '([^']*)' used but not defined`)},
	{"unused", regexp.MustCompile(`rule '([^']*)' defined but not used`)},
	{"leftrec", regexp.MustCompile(`possible infinite left recursion in rule '([^']*)'`)},
	{"duplicate", regexp.MustCompile(`rule '([^']*)' defined more than once`)},
}

func parseDiags(stderr string) [][2]string {
	out := [][2]string{}
	for _, d := range diagRes {
		for _, m := range d.re.FindAllStringSubmatch(stderr, -1) {
			out = append(out, [2]string{d.kind, m[1]})
		}
	}
	return out
}

type unit struct {
	sc   *scenario
	opt  string
	dir  string
	pkg  string
	gen  genObs
	runs []json.RawMessage
	fate string // "", "hang", "crash"
	note string
}

func optFlags(opt string) []string {
	var f []string
	if strings.Contains(opt, "i") {
		f = append(f, "-inline")
	}
	if strings.Contains(opt, "s") {
		f = append(f, "-switch")
	}
	if strings.Contains(opt, "n") {
		f = append(f, "-noast")
	}
	if strings.Contains(opt, "t") {
		f = append(f, "-strict")
	}
	return f
}

func goEnv(gocache string) []string {
	env := os.Environ()
	env = append(env, "GOFLAGS=-mod=mod", "GOPROXY=off", "GO111MODULE=on")
	if gocache != "" {
		env = append(env, "GOCACHE="+gocache)
	}
	return env
}

func readScenarios(paths []string) ([]*scenario, error) {
	var out []*scenario
	for _, p := range paths {
		f, err := os.Open(p)
		if err != nil {
			return nil, err
		}
		r := bufio.NewReaderSize(f, 1<<20)
		for {
			line, err := r.ReadBytes('\n')
			if len(bytes.TrimSpace(line)) > 0 {
				sc := &scenario{}
				if e := json.Unmarshal(line, sc); e != nil {
					f.Close()
					return nil, fmt.Errorf("%s: %v", p, e)
				}
				sc.raw = append([]byte(nil), bytes.TrimSpace(line)...)
				out = append(out, sc)
			}
			if err != nil {
				break
			}
		}
		f.Close()
	}
	sort.Slice(out, func(i, j int) bool { return out[i].ID < out[j].ID })
	return out, nil
}

func parallel(n, workers int, f func(i int)) {
	var wg sync.WaitGroup
	ch := make(chan int)
	for w := 0; w < workers; w++ {
		wg.Add(1)
		go func() {
			defer wg.Done()
			for i := range ch {
				f(i)
			}
		}()
	}
	for i := 0; i < n; i++ {
		ch <- i
	}
	close(ch)
	wg.Wait()
}

// systemFailure recognises toolchain failures that say nothing about the code under test
// (they must end in "no verdict", never in an observation)
func systemFailure(out []byte) bool {
	for _, pat := range []string{"no space left on device", "cannot allocate memory", "out of memory", "signal: killed", "too many open files",
		"input/output error", "resource temporarily unavailable", "read-only file system"} {
		if bytes.Contains(out, []byte(pat)) {
			return true
		}
	}
	return false
}

func trunc(s string, n int) string {
	if len(s) > n {
		return s[:n] + "..."
	}
	return s
}

func corpusMain(args []string) error {
	fs := flag.NewFlagSet("corpus", flag.ExitOnError)
	scenGlob := fs.String("scen", "", "glob of scenario ndjson files")
	peg := fs.String("peg", "", "peg binary built from /repo")
	work := fs.String("work", "", "scratch directory")
	out := fs.String("out", "", "observation ndjson")
	jobs := fs.Int("j", 16, "parallelism")
	gocache := fs.String("gocache", "", "GOCACHE to use")
	deadline := fs.Duration("deadline", 900*time.Second, "per (scenario, option set) run deadline")
	verifTag := fs.Bool("verif", false, "peg was built with -tags verif: record machine-step events")
	raceBuild := fs.Bool("race", false, "build the batch binary with the race detector")
	_ = fs.Parse(args)
	paths, _ := filepath.Glob(*scenGlob)
	if len(paths) == 0 {
		return fmt.Errorf("no scenario files match %q", *scenGlob)
	}
	scs, err := readScenarios(paths)
	if err != nil {
		return err
	}
	croot := filepath.Join(*work, "corpus")
	if err := os.MkdirAll(croot, 0o755); err != nil {
		return err
	}
	if err := os.WriteFile(filepath.Join(croot, "go.mod"), []byte("module corpus\n\ngo 1.25\n"), 0o644); err != nil {
		return err
	}
	var units []*unit
	for _, sc := range scs {
		for _, opt := range sc.Optsets {
			name := fmt.Sprintf("p%d_%s", sc.ID, opt)
			if opt == "" {
				name = fmt.Sprintf("p%d_d", sc.ID)
			}
			units = append(units, &unit{sc: sc, opt: opt, pkg: name, dir: filepath.Join(croot, name)})
		}
	}
	// 1. generate with the real peg binary and the real flags
	parallel(len(units), *jobs, func(i int) {
		u := units[i]
		_ = os.MkdirAll(u.dir, 0o755)
		_ = os.WriteFile(filepath.Join(u.dir, "g.peg"), []byte(u.sc.Text), 0o644)
		ctx, cancel := context.WithTimeout(context.Background(), 300*time.Second)
		defer cancel()
		a := append(optFlags(u.opt), "-output", "g.go", "g.peg")
		c := exec.CommandContext(ctx, *peg, a...)
		c.Dir = u.dir
		var stderr bytes.Buffer
		c.Stderr = &stderr
		c.Stdout = &stderr
		killed, stop := memWatch(c)
		err := c.Run()
		stop()
		if ctx.Err() != nil {
			u.gen.Timeout = true
		}
		if err != nil {
			var ee *exec.ExitError
			if errors.As(err, &ee) {
				u.gen.Exit = ee.ExitCode()
			} else {
				u.gen.Exit = -1
			}
		}
		if *killed {
			u.gen.Exit = 137
			stderr.Reset() // (a Go crash dump of many thousand lines)
			stderr.WriteString(memKilledMsg)
		}
		u.gen.Stderr = trunc(stderr.String(), 2000)
		u.gen.Diags = parseDiags(stderr.String())
		u.gen.Unguarded, u.gen.Guarded = []string{}, []string{}
		src, rerr := os.ReadFile(filepath.Join(u.dir, "g.go"))
		u.gen.HasOut = rerr == nil && len(src) > 0
		if u.gen.HasOut {
			u.gen.NSwitch = bytes.Count(src, []byte("switch buffer[position] {"))
			u.gen.Unguarded, u.gen.Guarded = ruleCalls(src)
			u.gen.NInline = bytes.Count(src, []byte("\n\t\tnil,\n")) - 1
			if f, e := format.Source(src); e == nil && bytes.Equal(f, src) {
				u.gen.Gofmt = true
			}
			shim := shimAst
			if strings.Contains(u.opt, "n") {
				shim = shimNoast
			}
			if u.sc.AllU {
				shim = strings.ReplaceAll(shim, "//@U ", "")
			}
			if *verifTag && !strings.Contains(u.opt, "n") {
				shim = strings.ReplaceAll(shim, "//@V ", "")
			}
			_ = os.WriteFile(filepath.Join(u.dir, "run.go"), []byte(shim), 0o644)
		} else {
			_ = os.Remove(filepath.Join(u.dir, "g.go"))
		}
	})
	for _, u := range units {
		if u.gen.Exit == -1 && !u.gen.Timeout {
			return fmt.Errorf("peg run for %s was killed or could not start (overload?): no observation", u.pkg)
		}
	}
	// 2. compile every package; a package that does not compile is an observation
	pkgRe := regexp.MustCompile(`(?m)^# corpus/(\S+)`)
	good := map[string]bool{}
	for _, u := range units {
		if u.gen.HasOut {
			good[u.pkg] = true
		}
	}
	for round := 0; round < 50; round++ {
		var list []string
		for p := range good {
			list = append(list, "./"+p)
		}
		if len(list) == 0 {
			break
		}
		sort.Strings(list)
		failed := map[string]string{}
		// go build stops scheduling new work after some failures, hence the loop
		for start := 0; start < len(list); start += 400 {
			end := min(start+400, len(list))
			bargs := []string{"build", "-gcflags=-l -N"}
			if *raceBuild {
				bargs = []string{"build", "-race"}
			}
			c := exec.Command("go", append(bargs, list[start:end]...)...)
			c.Dir = croot
			c.Env = goEnv(*gocache)
			outb, err := c.CombinedOutput()
			if err == nil {
				continue
			}
			if systemFailure(outb) {
				return fmt.Errorf("toolchain failure while compiling the corpus (not an observation):\n%s", trunc(string(outb), 2000))
			}
			locs := pkgRe.FindAllSubmatchIndex(outb, -1)
			if len(locs) == 0 {
				return fmt.Errorf("go build failed without package attribution:\n%s", trunc(string(outb), 4000))
			}
			for k, loc := range locs {
				name := string(outb[loc[2]:loc[3]])
				stop := len(outb)
				if k+1 < len(locs) {
					stop = locs[k+1][0]
				}
				failed[name] = trunc(strings.TrimSpace(string(outb[loc[1]:stop])), 600)
			}
		}
		if len(failed) == 0 {
			break
		}
		for name, m := range failed {
			delete(good, name)
			for _, u := range units {
				if u.pkg == name {
					u.gen.Msg = m
				}
			}
		}
	}
	for _, u := range units {
		u.gen.Compiles = good[u.pkg]
	}
	// 3. link all runnable packages into one batch binary
	var runnable []*unit
	for _, u := range units {
		if u.gen.Compiles && !u.sc.NoRun {
			runnable = append(runnable, u)
		}
	}
	if len(runnable) > 0 {
		var b strings.Builder
		b.WriteString("package main\n\nimport (\n")
		for _, u := range runnable {
			fmt.Fprintf(&b, "\t%s \"corpus/%s\"\n", u.pkg, u.pkg)
		}
		b.WriteString(")\n\nfunc init() {\n")
		for _, u := range runnable {
			fmt.Fprintf(&b, "\tregistry[%q] = %s.Run\n", u.pkg, u.pkg)
		}
		b.WriteString("}\n")
		bdir := filepath.Join(croot, "batch")
		_ = os.MkdirAll(bdir, 0o755)
		_ = os.WriteFile(filepath.Join(bdir, "reg.go"), []byte(b.String()), 0o644)
		_ = os.WriteFile(filepath.Join(bdir, "main.go"), []byte(batchMain), 0o644)
		largs := []string{"build", "-gcflags=-l -N", "-o", filepath.Join(*work, "batch.bin"), "./batch"}
		if *raceBuild {
			largs = []string{"build", "-race", "-o", filepath.Join(*work, "batch.bin"), "./batch"}
		}
		c := exec.Command("go", largs...)
		c.Dir = croot
		c.Env = goEnv(*gocache)
		if outb, err := c.CombinedOutput(); err != nil {
			return fmt.Errorf("linking batch binary: %v\n%s", err, trunc(string(outb), 4000))
		}
		// scenario payloads, one file per unit key
		sdir := filepath.Join(*work, "sc")
		_ = os.MkdirAll(sdir, 0o755)
		for _, u := range runnable {
			_ = os.WriteFile(filepath.Join(sdir, u.pkg+".json"), u.sc.raw, 0o644)
		}
		// 4. run as worker processes over slices; isolate hangs and crashes
		nw := *jobs
		slices := make([][]*unit, nw)
		for i, u := range runnable {
			slices[i%nw] = append(slices[i%nw], u)
		}
		parallel(nw, nw, func(w int) {
			todo := slices[w]
			for len(todo) > 0 {
				done := runWorker(filepath.Join(*work, "batch.bin"), sdir, todo, *deadline)
				todo = todo[done:]
			}
		})
	}
	// 5. write observations
	f, err := os.Create(*out)
	if err != nil {
		return err
	}
	defer f.Close()
	wr := bufio.NewWriterSize(f, 1<<20)
	defer wr.Flush()
	for _, u := range units {
		rec := map[string]any{"id": u.sc.ID, "opt": u.opt, "gen": u.gen, "fate": u.fate, "note": u.note}
		if u.runs == nil {
			rec["runs"] = []any{}
		} else {
			rec["runs"] = u.runs
		}
		b, err := json.Marshal(rec)
		if err != nil {
			return err
		}
		wr.Write(b)
		wr.WriteByte('\n')
	}
	fmt.Fprintf(os.Stderr, "driver corpus: %d scenarios, %d units, %d compiled, %d run\n", len(scs), len(units), len(good), len(runnable))
	return nil
}

// runWorker runs units in one process; returns how many units were settled (completed,
// or the one that hung/crashed, which is recorded as such and skipped on restart).
func runWorker(bin, sdir string, todo []*unit, deadline time.Duration) int {
	args := []string{"-sdir", sdir, "-deadline", deadline.String()}
	for _, u := range todo {
		args = append(args, u.pkg)
	}
	c := exec.Command(bin, args...)
	var stderr bytes.Buffer
	c.Stderr = &stderr
	stdout, _ := c.StdoutPipe()
	if err := c.Start(); err != nil {
		todo[0].fate, todo[0].note = "crash", err.Error()
		return 1
	}
	byName := map[string]*unit{}
	for _, u := range todo {
		byName[u.pkg] = u
	}
	done := 0
	cur := ""
	r := bufio.NewReaderSize(stdout, 1<<20)
	for {
		line, err := r.ReadBytes('\n')
		if len(line) > 1 {
			switch line[0] {
			case 'B': // begin unit
				cur = strings.TrimSpace(string(line[2:]))
			case 'R':
				if u := byName[cur]; u != nil {
					u.runs = append(u.runs, json.RawMessage(append([]byte(nil), bytes.TrimSpace(line[2:])...)))
				}
			case 'E':
				if u := byName[cur]; u != nil && u.runs == nil {
					u.runs = []json.RawMessage{}
				}
				done++
				cur = ""
			case 'H': // watchdog fired inside the batch binary
				if u := byName[cur]; u != nil {
					u.fate, u.note = "hang", strings.TrimSpace(string(line[2:]))
				}
			}
		}
		if err != nil {
			break
		}
	}
	err := c.Wait()
	if bytes.Contains(stderr.Bytes(), []byte("DATA RACE")) {
		// the race detector reports at the end of the process: attribute to every unit of this slice
		for _, u := range todo[:done] {
			if u.fate == "" {
				u.fate, u.note = "race", trunc(stderr.String(), 1500)
			}
		}
		if done == len(todo) {
			return done
		}
	}
	if done == len(todo) && err == nil {
		return done
	}
	// the unit in progress is the culprit
	if done < len(todo) {
		u := todo[done]
		if u.fate == "" {
			u.fate, u.note = "crash", trunc(stderr.String(), 1500)
		}
		u.runs = nil
		return done + 1
	}
	return done
}

const batchMain = `package main

import (
	"bufio"
	"flag"
	"fmt"
	"os"
	"path/filepath"
	"strings"
	"sync"
	"time"
)

var registry = map[string]func([]byte, string, func([]byte)){}

func main() {
	sdir := flag.String("sdir", "", "")
	deadline := flag.Duration("deadline", 20*time.Second, "")
	flag.Parse()
	w := bufio.NewWriterSize(os.Stdout, 1<<20)
	var mu sync.Mutex
	for _, key := range flag.Args() {
		raw, err := os.ReadFile(filepath.Join(*sdir, key+".json"))
		if err != nil {
			fmt.Fprintln(os.Stderr, err)
			os.Exit(4)
		}
		mu.Lock()
		fmt.Fprintf(w, "B %s\n", key)
		w.Flush()
		mu.Unlock()
		fin := make(chan struct{})
		go func() {
			select {
			case <-fin:
			case <-time.After(*deadline):
				mu.Lock()
				fmt.Fprintf(w, "H deadline %v exceeded\n", *deadline)
				w.Flush()
				os.Exit(3)
			}
		}()
		opt := key[strings.LastIndex(key, "_")+1:]
		if opt == "d" {
			opt = ""
		}
		registry[key](raw, opt, func(b []byte) {
			mu.Lock()
			w.WriteString("R ")
			w.Write(b)
			w.WriteByte('\n')
			mu.Unlock()
		})
		close(fin)
		mu.Lock()
		fmt.Fprintf(w, "E %s\n", key)
		w.Flush()
		mu.Unlock()
	}
}
`
