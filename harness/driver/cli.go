package main

import (
	"bufio"
	"bytes"
	"context"
	"encoding/json"
	"errors"
	"flag"
	"fmt"
	"go/parser"
	"go/token"
	"os"
	"os/exec"
	"path/filepath"
	"strings"
	"time"
)

func init() { commands["cli"] = cliMain }

type cliScenario struct {
	ID int `json:"id"`
	Sc struct {
		Src    string `json:"src"`
		Text   string `json:"text"`
		Dest   string `json:"dest"`
		Pre    string `json:"pre"`
		Strict bool   `json:"strict"`
		Opt    string `json:"opt"`
	} `json:"sc"`
	Grammar  string `json:"grammar"`
	DestKind string `json:"destkind"`
}

type cliObs struct {
	ID     int             `json:"id"`
	Sc     json.RawMessage `json:"sc"`
	Exit   int             `json:"exit"`
	Stderr string          `json:"stderr"`
	Dest   string          `json:"dest"` // absent | empty | complete | other
	Parses bool            `json:"parses"`
	Args   []string        `json:"args"`
}

// body of a generated file without its first line (which quotes the argument list)
func sansHeader(b []byte) []byte {
	if i := bytes.IndexByte(b, '\n'); i >= 0 {
		return b[i+1:]
	}
	return b
}

func runPeg(peg, dir string, args []string, stdin []byte) (exit int, stdout, stderr []byte) {
	ctx, cancel := context.WithTimeout(context.Background(), 300*time.Second)
	defer cancel()
	c := exec.CommandContext(ctx, peg, args...)
	c.Dir = dir
	var so, se bytes.Buffer
	c.Stdout, c.Stderr = &so, &se
	if stdin != nil {
		c.Stdin = bytes.NewReader(stdin)
	}
	err := c.Run()
	if err != nil {
		var ee *exec.ExitError
		if errors.As(err, &ee) {
			exit = ee.ExitCode()
		} else {
			exit = -1
		}
	}
	return exit, so.Bytes(), se.Bytes()
}

func cliMain(args []string) error {
	fs := flag.NewFlagSet("cli", flag.ExitOnError)
	scen := fs.String("scen", "", "scenario ndjson")
	peg := fs.String("peg", "", "peg binary")
	work := fs.String("work", "", "scratch dir")
	out := fs.String("out", "", "observation ndjson")
	jobs := fs.Int("j", 16, "parallelism")
	_ = fs.Parse(args)
	f, err := os.Open(*scen)
	if err != nil {
		return err
	}
	var scs []cliScenario
	var raws []json.RawMessage
	r := bufio.NewReaderSize(f, 1<<20)
	for {
		line, err := r.ReadBytes('\n')
		if len(bytes.TrimSpace(line)) > 0 {
			var s cliScenario
			if e := json.Unmarshal(line, &s); e != nil {
				return e
			}
			var probe struct {
				Sc json.RawMessage `json:"sc"`
			}
			_ = json.Unmarshal(line, &probe)
			scs = append(scs, s)
			raws = append(raws, probe.Sc)
		}
		if err != nil {
			break
		}
	}
	f.Close()
	obs := make([]cliObs, len(scs))
	parallel(len(scs), *jobs, func(i int) {
		s := scs[i]
		dir := filepath.Join(*work, fmt.Sprintf("cli%d", s.ID))
		_ = os.MkdirAll(dir, 0o755)
		defer os.RemoveAll(dir)
		text := []byte(strings.ReplaceAll(s.Grammar, "#@LONGLINE@", "# "+strings.Repeat("x", 100000)))
		_ = os.WriteFile(filepath.Join(dir, "other.peg"), text, 0o644)
		_ = os.WriteFile(filepath.Join(dir, "g.peg"), text, 0o644)
		_ = os.Mkdir(filepath.Join(dir, "gdir"), 0o755)
		_ = os.Mkdir(filepath.Join(dir, "adir"), 0o755)
		a := optFlags(s.Sc.Opt)
		if s.Sc.Strict {
			a = append(a, "-strict")
		}
		destFile := ""
		switch s.Sc.Dest {
		case "named":
			a = append(a, "-output", "out.go")
			destFile = "out.go"
		case "stdout":
			a = append(a, "-output", "-")
		case "missingdir":
			a = append(a, "-output", "nodir/out.go")
		case "isdir":
			a = append(a, "-output", "adir")
		case "devfull":
			a = append(a, "-output", "/dev/full")
		}
		var stdin []byte
		switch s.Sc.Src {
		case "file":
			a = append(a, "g.peg")
			if s.Sc.Dest == "default" {
				destFile = "g.peg.go"
			}
		case "fileopt":
			a = append(a, "g.peg", "-strict")
			if s.Sc.Dest == "default" {
				destFile = "g.peg.go"
			}
		case "file2":
			a = append(a, "g.peg", "other.peg")
			if s.Sc.Dest == "default" {
				destFile = "g.peg.go"
			}
		case "missing":
			a = append(a, "nothere.peg")
			if s.Sc.Dest == "default" {
				destFile = "nothere.peg.go"
			}
		case "directory":
			a = append(a, "gdir")
			if s.Sc.Dest == "default" {
				destFile = "gdir.go"
			}
		case "stdin":
			stdin = text
		case "dash":
			a = append(a, "-")
			stdin = text
		}
		junk := bytes.Repeat([]byte("// stale content of an earlier generation\n"), 4000)
		if destFile != "" && s.Sc.Pre == "longer" {
			_ = os.WriteFile(filepath.Join(dir, destFile), junk, 0o644)
		}
		// reference: the same grammar and options written to a fresh named file
		ra := append(optFlags(s.Sc.Opt), "-output", "ref.go", "g.peg")
		_, _, _ = runPeg(*peg, dir, ra, nil)
		ref, _ := os.ReadFile(filepath.Join(dir, "ref.go"))
		exit, stdout, stderr := runPeg(*peg, dir, a, stdin)
		o := cliObs{ID: s.ID, Sc: raws[i], Exit: exit, Stderr: trunc(string(stderr), 600), Args: append([]string{}, a...)}
		var content []byte
		present := false
		if s.DestKind == "stdout" {
			content, present = stdout, true
		} else if destFile != "" {
			if b, err := os.ReadFile(filepath.Join(dir, destFile)); err == nil {
				content, present = b, true
			}
		}
		switch {
		case !present:
			o.Dest = "absent"
		case len(content) == 0:
			o.Dest = "empty"
		default:
			_, perr := parser.ParseFile(token.NewFileSet(), "out.go", content, parser.SkipObjectResolution)
			o.Parses = perr == nil
			if o.Parses && len(ref) > 0 && bytes.Equal(sansHeader(content), sansHeader(ref)) &&
				strings.HasPrefix(string(content), "// Code generated by ") {
				o.Dest = "complete"
			} else {
				o.Dest = "other"
			}
		}
		obs[i] = o
	})
	for _, o := range obs {
		if o.Exit == -1 {
			return fmt.Errorf("peg run of CLI scenario %d was killed or could not start: no observation", o.ID)
		}
	}
	of, err := os.Create(*out)
	if err != nil {
		return err
	}
	w := bufio.NewWriter(of)
	for _, o := range obs {
		b, _ := json.Marshal(o)
		w.Write(b)
		w.WriteByte('\n')
	}
	w.Flush()
	of.Close()
	fmt.Fprintf(os.Stderr, "driver cli: %d scenarios run\n", len(obs))
	return nil
}
