// Command driver materialises TLC-generated scenarios against the real peg built from
// /repo and records what the code did.  It renders nothing, predicts nothing and judges
// nothing: every verdict is TLC's (spec/Judge*.tla).
package main

import (
	"fmt"
	"os"
)

func main() {
	if len(os.Args) < 2 {
		fmt.Fprintln(os.Stderr, "usage: driver <corpus|set|cli|...> [flags]")
		os.Exit(2)
	}
	cmd, args := os.Args[1], os.Args[2:]
	var err error
	switch cmd {
	case "corpus":
		err = corpusMain(args)
	default:
		if f, ok := commands[cmd]; ok {
			err = f(args)
		} else {
			err = fmt.Errorf("unknown subcommand %q", cmd)
		}
	}
	if err != nil {
		fmt.Fprintln(os.Stderr, "driver:", err)
		os.Exit(2)
	}
}

// further subcommands register themselves here
var commands = map[string]func([]string) error{}
