package main

import (
	"bufio"
	"bytes"
	"crypto/sha256"
	"encoding/hex"
	"encoding/json"
	"flag"
	"fmt"
	"math/rand"
	"os"
	"os/exec"
	"path/filepath"
	"regexp"
	"sort"
	"strings"
)

func init() {
	commands["shipped"] = shippedMain
	commands["bootstrap"] = bootstrapMain
}

var pegTypeRe = regexp.MustCompile(`(?m)^type\s+(\w+)\s+Peg\b`)
var pegPkgRe = regexp.MustCompile(`(?m)^package\s+(\w+)`)

const shippedRunner = `package PKG

import (
	"crypto/sha256"
	"encoding/hex"
	"fmt"
)

// VerifRun parses every input with a fresh parser and returns verdict and a digest of the tokens.
func VerifRun(inputs []string) (oks []bool, digests []string, panics []string) {
	for _, s := range inputs {
		ok, dg, pn := func() (ok bool, dg string, pn string) {
			defer func() {
				if r := recover(); r != nil {
					pn = fmt.Sprint(r)
				}
			}()
			p := &TYPE[uint32]{Buffer: s}
			_ = p.Init()
			err := p.Parse()
			h := sha256.New()
			if err == nil {
				for _, t := range p.Tokens() {
					fmt.Fprintf(h, "%s %d %d;", rul3s[t.pegRule], t.begin, t.end)
				}
			}
			return err == nil, hex.EncodeToString(h.Sum(nil)[:8]), ""
		}()
		oks = append(oks, ok)
		digests = append(digests, dg)
		panics = append(panics, pn)
	}
	return
}
`

const shippedMainSrc = `package main

import (
	"encoding/json"
	"os"
)

type res struct {
	Key     string   ` + "`json:\"key\"`" + `
	OK      []bool   ` + "`json:\"ok\"`" + `
	Digest  []string ` + "`json:\"digest\"`" + `
	Panic   []string ` + "`json:\"panic\"`" + `
}

var registry = map[string]func([]string) ([]bool, []string, []string){}

func main() {
	var inputs map[string][]string
	b, _ := os.ReadFile(os.Args[1])
	_ = json.Unmarshal(b, &inputs)
	enc := json.NewEncoder(os.Stdout)
	for key, f := range registry {
		g := key[:len(key)-len(key[lastUnderscore(key):])]
		ok, dg, pn := f(inputs[g])
		_ = enc.Encode(res{key, ok, dg, pn})
	}
}

func lastUnderscore(s string) int {
	for i := len(s) - 1; i >= 0; i-- {
		if s[i] == '_' {
			return i
		}
	}
	return 0
}
`

type shippedGen struct {
	Grammar string `json:"grammar"`
	Opt     string `json:"opt"`
	Exit    int    `json:"exit"`
	Stderr  string `json:"stderr"`
	Built   bool   `json:"built"`
}
type shippedObs struct {
	Grammar string            `json:"grammar"`
	Input   int               `json:"input"`
	Kind    string            `json:"kind"`
	Len     int               `json:"len"`
	OK      map[string]bool   `json:"ok"`
	Digest  map[string]string `json:"digest"`
	Panic   map[string]string `json:"panic"`
}

// byteNoise inserts bytes that are not text: NUL, 0xFF, truncated and overlong UTF-8, a surrogate, U+10FFFF
func byteNoise(rng *rand.Rand, s string) string {
	chunks := []string{"\x00", "\xff", "\xc3", "\xf0\x9f", "\xed\xa0\x80", "\xf4\x8f\xbf\xbf", "\xf4\x90\x80\x80", "\xef\xbf\xbd", "\x80"}
	at := 0
	if len(s) > 0 {
		at = rng.Intn(len(s) + 1)
	}
	return s[:at] + chunks[rng.Intn(len(chunks))] + s[at:]
}

func mutateBytes(rng *rand.Rand, s string) string {
	rs := []rune(s)
	if len(rs) == 0 {
		return "x"
	}
	at := rng.Intn(len(rs))
	alphabet := []rune("(){}[];,+-*/=<>\"' \nab1_.")
	switch rng.Intn(3) {
	case 0:
		return string(rs[:at]) + string(rs[at+1:])
	case 1:
		return string(rs[:at]) + string(alphabet[rng.Intn(len(alphabet))]) + string(rs[at:])
	default:
		return string(rs[:at]) + string(alphabet[rng.Intn(len(alphabet))]) + string(rs[at+1:])
	}
}

func shippedMain(args []string) error {
	fs := flag.NewFlagSet("shipped", flag.ExitOnError)
	repo := fs.String("repo", "/repo", "")
	peg := fs.String("peg", "", "")
	work := fs.String("work", "", "")
	out := fs.String("out", "", "")
	seed := fs.Int64("seed", 1, "")
	muts := fs.Int("mut", 6, "mutations per sample input")
	gocache := fs.String("gocache", "", "")
	_ = fs.Parse(args)
	opts := []string{"", "i", "s", "is"}
	mod := filepath.Join(*work, "shipped")
	_ = os.MkdirAll(mod, 0o755)
	_ = os.WriteFile(filepath.Join(mod, "go.mod"), []byte("module shipped\n\ngo 1.25\n"), 0o644)
	dirs, _ := filepath.Glob(filepath.Join(*repo, "grammars", "*"))
	sort.Strings(dirs)
	var gens []shippedGen
	inputs := map[string][]string{}
	kinds := map[string][]string{}
	var reg strings.Builder
	reg.WriteString("package main\n\nimport (\n")
	var regBody strings.Builder
	rng := rand.New(rand.NewSource(*seed))
	for _, d := range dirs {
		pegs, _ := filepath.Glob(filepath.Join(d, "*.peg"))
		if len(pegs) != 1 {
			continue
		}
		name := filepath.Base(d)
		text, _ := os.ReadFile(pegs[0])
		tm := pegTypeRe.FindSubmatch(text)
		pm := pegPkgRe.FindSubmatch(text)
		if tm == nil || pm == nil {
			continue
		}
		// sample inputs: the non-Go, non-peg files of the directory (recursively), plus generic snippets
		var samples []string
		_ = filepath.Walk(d, func(p string, info os.FileInfo, err error) error {
			if err != nil || info.IsDir() || strings.HasSuffix(p, ".go") || strings.HasSuffix(p, ".peg") || info.Size() > 200000 {
				return nil
			}
			b, e := os.ReadFile(p)
			if e == nil {
				samples = append(samples, string(b))
			}
			return nil
		})
		samples = append(samples, "", "1+2*3", "(1+2)*3-4/2", "int a() { return 0; }\n", "int a;\n", "class A { int f() { return 1; } }\n",
			"\\x x", "say \"hello\"", "a b c", "x", "1", "()", "finally", "interface x", "T")
		// words the grammar itself spells as literals (keywords): substituted for identifiers of the samples
		var words []string
		for _, m := range regexp.MustCompile(`'([a-z]{3,})'`).FindAllSubmatch(text, -1) {
			words = append(words, string(m[1]))
		}
		// keywords of which another keyword is a proper prefix ('finally'/'final'): where ordered choice matters most
		var siblings []string
		seenW := map[string]bool{}
		for _, w := range words {
			for _, v := range words {
				if v != w && strings.HasPrefix(w, v) && !seenW[w] {
					seenW[w] = true
					siblings = append(siblings, w)
				}
			}
		}
		identRe := regexp.MustCompile(`[A-Za-z_][A-Za-z_0-9]*`)
		krng := rand.New(rand.NewSource(*seed + 77))
		for _, s := range samples {
			inputs[name] = append(inputs[name], s)
			kinds[name] = append(kinds[name], "sample")
			if locs := identRe.FindAllStringIndex(s, -1); len(locs) > 0 {
				for _, w := range siblings {
					for k := 0; k < 3; k++ {
						l := locs[krng.Intn(len(locs))]
						inputs[name] = append(inputs[name], s[:l[0]]+w+s[l[1]:])
						kinds[name] = append(kinds[name], "keyword")
					}
				}
			}
			if locs := identRe.FindAllStringIndex(s, -1); len(locs) > 0 && len(words) > 0 {
				for k := 0; k < 2**muts; k++ {
					l := locs[rng.Intn(len(locs))]
					inputs[name] = append(inputs[name], s[:l[0]]+words[rng.Intn(len(words))]+s[l[1]:])
					kinds[name] = append(kinds[name], "keyword")
				}
			}
			for k := 0; k < *muts; k++ {
				inputs[name] = append(inputs[name], mutateBytes(rng, s))
				kinds[name] = append(kinds[name], "mutant")
			}
			for k := 0; k < (*muts+1)/2; k++ {
				inputs[name] = append(inputs[name], byteNoise(rng, s))
				kinds[name] = append(kinds[name], "bytes")
			}
		}
		for _, o := range opts {
			on := o
			if on == "" {
				on = "d"
			}
			key := name + "_" + on
			pd := filepath.Join(mod, key)
			_ = os.MkdirAll(pd, 0o755)
			_ = os.WriteFile(filepath.Join(pd, "g.peg"), text, 0o644)
			gofiles, _ := filepath.Glob(filepath.Join(d, "*.go"))
			for _, gf := range gofiles {
				if strings.HasSuffix(gf, "_test.go") || strings.HasSuffix(gf, ".peg.go") {
					continue
				}
				b, _ := os.ReadFile(gf)
				_ = os.WriteFile(filepath.Join(pd, filepath.Base(gf)), b, 0o644)
			}
			a := append(optFlags(o), "-strict", "-output", "g.go", "g.peg")
			exit, _, se := runPegEnv(*peg, pd, a, nil)
			g := shippedGen{Grammar: name, Opt: o, Exit: exit, Stderr: trunc(string(stripLogTime(se)), 400)}
			if exit == 0 {
				runner := strings.ReplaceAll(strings.ReplaceAll(shippedRunner, "PKG", string(pm[1])), "TYPE", string(tm[1]))
				_ = os.WriteFile(filepath.Join(pd, "verif_runner.go"), []byte(runner), 0o644)
				fmt.Fprintf(&reg, "\t%s \"shipped/%s\"\n", key, key)
				fmt.Fprintf(&regBody, "\tregistry[%q] = %s.VerifRun\n", key, key)
				g.Built = true
			}
			gens = append(gens, g)
		}
	}
	reg.WriteString(")\n\nfunc init() {\n" + regBody.String() + "}\n")
	md := filepath.Join(mod, "main")
	_ = os.MkdirAll(md, 0o755)
	_ = os.WriteFile(filepath.Join(md, "reg.go"), []byte(reg.String()), 0o644)
	_ = os.WriteFile(filepath.Join(md, "main.go"), []byte(shippedMainSrc), 0o644)
	c := exec.Command("go", "build", "-o", filepath.Join(*work, "shipped.bin"), "./main")
	c.Dir = mod
	c.Env = goEnv(*gocache)
	if outb, err := c.CombinedOutput(); err != nil {
		if systemFailure(outb) {
			return fmt.Errorf("toolchain failure while compiling the shipped grammars (not an observation):\n%s", trunc(string(outb), 2000))
		}
		// a generated parser that does not compile is an observation: find the packages
		for i := range gens {
			on := gens[i].Opt
			if on == "" {
				on = "d"
			}
			if bytes.Contains(outb, []byte("shipped/"+gens[i].Grammar+"_"+on)) {
				gens[i].Built = false
				gens[i].Stderr += " | " + trunc(string(outb), 300)
			}
		}
		return writeShipped(*out, gens, nil)
	}
	ib, _ := json.Marshal(inputs)
	ifile := filepath.Join(*work, "inputs.json")
	_ = os.WriteFile(ifile, ib, 0o644)
	rc := exec.Command(filepath.Join(*work, "shipped.bin"), ifile)
	rout, err := rc.Output()
	if err != nil {
		return fmt.Errorf("shipped runner failed: %v", err)
	}
	type res struct {
		Key    string   `json:"key"`
		OK     []bool   `json:"ok"`
		Digest []string `json:"digest"`
		Panic  []string `json:"panic"`
	}
	byG := map[string][]shippedObs{}
	sc := bufio.NewScanner(bytes.NewReader(rout))
	sc.Buffer(make([]byte, 1<<20), 1<<26)
	for sc.Scan() {
		var r res
		if e := json.Unmarshal(sc.Bytes(), &r); e != nil {
			return e
		}
		i := strings.LastIndex(r.Key, "_")
		g, o := r.Key[:i], r.Key[i+1:]
		if o == "d" {
			o = "default"
		}
		if byG[g] == nil {
			byG[g] = make([]shippedObs, len(inputs[g]))
			for k := range byG[g] {
				byG[g][k] = shippedObs{Grammar: g, Input: k + 1, Kind: kinds[g][k], Len: len([]rune(inputs[g][k])),
					OK: map[string]bool{}, Digest: map[string]string{}, Panic: map[string]string{}}
			}
		}
		for k := range r.OK {
			byG[g][k].OK[o] = r.OK[k]
			byG[g][k].Digest[o] = r.Digest[k]
			byG[g][k].Panic[o] = r.Panic[k]
		}
	}
	var all []shippedObs
	var names []string
	for g := range byG {
		names = append(names, g)
	}
	sort.Strings(names)
	for _, g := range names {
		all = append(all, byG[g]...)
	}
	return writeShipped(*out, gens, all)
}

func writeShipped(out string, gens []shippedGen, obs []shippedObs) error {
	f, err := os.Create(out)
	if err != nil {
		return err
	}
	w := bufio.NewWriter(f)
	for _, g := range gens {
		b, _ := json.Marshal(map[string]any{"kind": "gen", "g": g})
		w.Write(b)
		w.WriteByte('\n')
	}
	for _, o := range obs {
		b, _ := json.Marshal(map[string]any{"kind": "run", "o": o})
		w.Write(b)
		w.WriteByte('\n')
	}
	w.Flush()
	f.Close()
	fmt.Fprintf(os.Stderr, "driver shipped: %d generations, %d inputs\n", len(gens), len(obs))
	return nil
}

// bootstrapMain runs the repository's bootstrap chain in a scratch copy and reports, per file of interest,
// the digest before and after.
func bootstrapMain(args []string) error {
	fs := flag.NewFlagSet("bootstrap", flag.ExitOnError)
	repo := fs.String("repo", "/repo", "")
	work := fs.String("work", "", "")
	out := fs.String("out", "", "")
	gocache := fs.String("gocache", "", "")
	_ = fs.Parse(args)
	dst := filepath.Join(*work, "repo")
	ls := exec.Command("git", "-C", *repo, "ls-files", "-co", "--exclude-standard")
	lb, err := ls.Output()
	if err != nil {
		return err
	}
	for _, f := range strings.Split(strings.TrimSpace(string(lb)), "\n") {
		if f == "" {
			continue
		}
		b, e := os.ReadFile(filepath.Join(*repo, f))
		if e != nil {
			continue
		}
		p := filepath.Join(dst, f)
		_ = os.MkdirAll(filepath.Dir(p), 0o755)
		info, _ := os.Stat(filepath.Join(*repo, f))
		_ = os.WriteFile(p, b, info.Mode())
	}
	dg := func(p string) string {
		b, e := os.ReadFile(p)
		if e != nil {
			return "missing"
		}
		h := sha256.Sum256(b)
		return hex.EncodeToString(h[:8])
	}
	before := dg(filepath.Join(dst, "peg.peg.go"))
	c := exec.Command("bash", "bootstrap.bash")
	c.Dir = dst
	c.Env = goEnv(*gocache)
	ob, err := c.CombinedOutput()
	rc := 0
	if err != nil {
		rc = 1
	}
	after := dg(filepath.Join(dst, "peg.peg.go"))
	rec := map[string]any{"kind": "bootstrap", "rc": rc, "before": before, "after": after, "equal": before == after && rc == 0,
		"log": trunc(string(ob), 1500)}
	b, _ := json.Marshal(rec)
	return os.WriteFile(*out, append(b, '\n'), 0o644)
}
