// Command setrun replays TLC-generated histories of set operations on the real
// github.com/pointlander/peg/set package and records every observer after every step.
// It contains no oracle.
package main

import (
	"bufio"
	"bytes"
	"encoding/json"
	"flag"
	"fmt"
	"os"
	"path/filepath"
	"regexp"
	"strconv"
	"time"

	"github.com/pointlander/peg/set"
)

var intRe = regexp.MustCompile(`-?\d+`)

type op struct {
	Op  string `json:"op"`
	R   int    `json:"r"`
	A   int    `json:"a"`
	B   int    `json:"b"`
	E   int    `json:"e"`
	Lim int    `json:"lim"`
}
type history struct {
	ID    int   `json:"id"`
	U     int   `json:"u"`
	Ops   []op  `json:"ops"`
	Atoms []int `json:"atoms"` // when present: operands are indices of atoms, blocks of integers that start here
	Top   int   `json:"top"`   // last element of the last atom
}

// first and last element of atom k (or k itself in a history over plain integers)
func (h history) lo(k int) rune {
	if len(h.Atoms) == 0 {
		return rune(k)
	}
	return rune(h.Atoms[k])
}
func (h history) hi(k int) rune {
	if len(h.Atoms) == 0 {
		return rune(k)
	}
	if k+1 < len(h.Atoms) {
		return rune(h.Atoms[k+1] - 1)
	}
	return rune(h.Top)
}
type regObs struct {
	Len      int    `json:"len"`
	LenQR    [2]int `json:"lenqr"` // Len() as quotient and remainder of 65536 (the judge's integers are 32 bits wide)
	Has      []bool `json:"has"`
	Str      []int  `json:"str"`
	StrOK    bool   `json:"strok"` // String() returned and had the documented shape
	StrPanic string `json:"strpanic"`
	Panic    string `json:"panic"`
}
type stepObs struct {
	Panic string     `json:"panic"` // panic of the operation itself
	Regs  []regObs   `json:"regs"`
	Inter [][]string `json:"inter"` // "t" / "f" / "p" (panic)
	Equal [][]string `json:"equal"`
}

func guard(f func()) (msg string) {
	defer func() {
		if r := recover(); r != nil {
			msg = fmt.Sprint(r)
		}
	}()
	f()
	return ""
}

func tf(b bool) string {
	if b {
		return "t"
	}
	return "f"
}

func run(h history) []stepObs {
	regs := []*set.Set{set.NewSet(), set.NewSet(), set.NewSet()}
	var out []stepObs
	for _, o := range h.Ops {
		var st stepObs
		st.Panic = guard(func() {
			switch o.Op {
			case "add":
				regs[o.R-1].AddRange(h.lo(o.B), h.hi(o.E))
			case "add1":
				if len(h.Atoms) == 0 {
					regs[o.R-1].Add(rune(o.B))
				} else {
					regs[o.R-1].AddRange(h.lo(o.B), h.hi(o.B))
				}
			case "copy":
				regs[o.R-1] = regs[o.A-1].Copy()
			case "union":
				regs[o.R-1] = regs[o.A-1].Union(regs[o.B-1])
			case "compl":
				regs[o.R-1] = regs[o.A-1].Complement(h.hi(o.Lim))
			default:
				panic("unknown op " + o.Op)
			}
		})
		for _, s := range regs {
			var ro regObs
			ro.Panic = guard(func() {
				ro.Len = s.Len()
				if len(h.Atoms) > 0 {
					ro.LenQR = [2]int{ro.Len / 65536, ro.Len % 65536}
					ro.Len = 0
					ro.Has = make([]bool, 0, 2*(h.U+1))
					for k := 0; k <= h.U; k++ {
						ro.Has = append(ro.Has, s.Has(h.lo(k)), s.Has(h.hi(k)))
					}
					return
				}
				ro.Has = make([]bool, h.U+2)
				for x := 0; x <= h.U+1; x++ {
					ro.Has[x] = s.Has(rune(x))
				}
			})
			ro.Str = []int{}
			if len(h.Atoms) > 0 {
				ro.StrOK = true // the element list of a set of up to 2^31 integers is not asked for
				st.Regs = append(st.Regs, ro)
				continue
			}
			ro.StrPanic = guard(func() {
				// the property fixes the content (the ascending element list), not the punctuation
				str := s.String()
				ro.StrOK = true
				for _, f := range intRe.FindAllString(str, -1) {
					n, err := strconv.Atoi(f)
					if err != nil {
						ro.StrOK = false
					}
					ro.Str = append(ro.Str, n)
				}
			})
			st.Regs = append(st.Regs, ro)
		}
		for i := range regs {
			var ri, re []string
			for j := range regs {
				v := "p"
				if guard(func() { v = tf(regs[i].Intersects(regs[j])) }) != "" {
					v = "p"
				}
				ri = append(ri, v)
				w := "p"
				if guard(func() { w = tf(regs[i].Equal(regs[j])) }) != "" {
					w = "p"
				}
				re = append(re, w)
			}
			st.Inter = append(st.Inter, ri)
			st.Equal = append(st.Equal, re)
		}
		out = append(out, st)
	}
	return out
}

func main() {
	scen := flag.String("scen", "", "glob of history ndjson files")
	outp := flag.String("out", "", "joined output ndjson: {h: history, steps: [...]}")
	deadline := flag.Duration("deadline", 10*time.Second, "per-history deadline")
	hangs, stop := 0, false
	flag.Parse()
	paths, _ := filepath.Glob(*scen)
	f, err := os.Create(*outp)
	if err != nil {
		fmt.Fprintln(os.Stderr, err)
		os.Exit(2)
	}
	w := bufio.NewWriterSize(f, 1<<20)
	n := 0
	for _, p := range paths {
		in, err := os.Open(p)
		if err != nil {
			fmt.Fprintln(os.Stderr, err)
			os.Exit(2)
		}
		r := bufio.NewReaderSize(in, 1<<20)
		for {
			line, err := r.ReadBytes('\n')
			if len(bytes.TrimSpace(line)) > 0 {
				var h history
				if e := json.Unmarshal(line, &h); e != nil {
					fmt.Fprintln(os.Stderr, p, e)
					os.Exit(2)
				}
				// a corrupted list can make any walker spin: run under a deadline and record a hang
				// as an observation (the goroutine is abandoned; at most a few are tolerated)
				ch := make(chan []stepObs, 1)
				go func() { ch <- run(h) }()
				var steps []stepObs
				hang := false
				select {
				case steps = <-ch:
				case <-time.After(*deadline):
					hang = true
					hangs++
					steps = []stepObs{}
				}
				rec := map[string]any{"h": json.RawMessage(bytes.TrimSpace(line)), "steps": steps, "hang": hang}
				b, _ := json.Marshal(rec)
				w.Write(b)
				w.WriteByte('\n')
				n++
				if hangs > 8 {
					// every abandoned goroutine keeps a core busy: the hangs recorded so far are observations
					// enough, the remaining histories are not replayed
					fmt.Fprintln(os.Stderr, "setrun: stopped after", hangs, "hanging histories")
					stop = true
				}
			}
			if err != nil || stop {
				break
			}
		}
		in.Close()
		if stop {
			break
		}
	}
	w.Flush()
	f.Close()
	fmt.Fprintf(os.Stderr, "setrun: %d histories replayed\n", n)
}
