module verifharness

go 1.25
